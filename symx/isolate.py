"""Library state isolation between paths.

The explorer re-executes the harness once per path in one process.  The harness builds its own objects afresh, but
module-level state of the library under test (memo tables, lazily filled caches, class attributes assigned at run
time, members added to enumerations) would survive from one path into the next; a counterexample found on such a
path does not reproduce from a fresh process.  Before every path all mutable state reachable from the pyscsi modules
is put back to what it was when first seen: attribute namespaces of modules, classes and library objects are
re-bound, containers get their old contents (in place, identities kept), functools caches are cleared.

Comparisons are by identity and in insertion order -- nothing is hashed or compared with ==, so proxies left behind
by an earlier path are never touched."""
import sys
import types
import weakref

PREFIX = "pyscsi"
_MISSING = object()


class Snapshot:
    def __init__(self):
        self.entries = {}        # id(obj) -> (kind, obj, saved, module name)
        self.modules = {}        # module name -> id(module object)
        self.restored = 0

    # ------------------------------------------------------------------ taking
    def extend(self):
        cur = {name: m for name, m in list(sys.modules.items())
               if m is not None and (name == PREFIX or name.startswith(PREFIX + "."))}
        changed = [name for name, m in cur.items() if self.modules.get(name) != id(m)]
        if not changed:
            return
        for name in changed:
            if name in self.modules:
                for k in [k for k, e in self.entries.items() if e[3] == name]:
                    del self.entries[k]
            self.modules[name] = id(cur[name])
            self._walk(cur[name], name)

    def _add(self, kind, o, saved, mod):
        self.entries[id(o)] = (kind, o, saved, mod)

    def _walk(self, module, mod):
        stack = [module]
        seen = set()
        n = 0
        while stack and n < 2000000:
            n += 1
            v = stack.pop()
            if id(v) in seen or id(v) in self.entries:
                continue
            seen.add(id(v))
            if isinstance(v, types.ModuleType):
                if v is module:
                    self._add("ns", v, dict(vars(v)), mod)
                    stack.extend(vars(v).values())
            elif isinstance(v, dict):
                self._add("dict", v, list(v.items()), mod)
                stack.extend(v.values())
            elif isinstance(v, list):
                self._add("list", v, list(v), mod)
                stack.extend(v)
            elif isinstance(v, set):
                self._add("set", v, list(v), mod)
            elif isinstance(v, bytearray):
                self._add("ba", v, bytes(v), mod)
            elif isinstance(v, tuple):
                stack.extend(v)
            elif isinstance(v, (weakref.WeakKeyDictionary, weakref.WeakValueDictionary)):
                self._add("weak", v, list(v.items()), mod)
            elif isinstance(v, type):
                if getattr(v, "__module__", "").startswith(PREFIX):
                    self._add("cls", v, dict(vars(v)), mod)
                    stack.extend(vars(v).values())
            elif isinstance(v, types.FunctionType):
                if v.__defaults__:
                    stack.extend(v.__defaults__)
                if v.__kwdefaults__:
                    stack.extend(v.__kwdefaults__.values())
                if v.__closure__:
                    for c in v.__closure__:
                        try:
                            stack.append(c.cell_contents)
                        except ValueError:
                            pass
            elif isinstance(v, (staticmethod, classmethod)):
                stack.append(v.__func__)
            elif isinstance(v, property):
                stack.extend(f for f in (v.fget, v.fset, v.fdel) if f is not None)
            elif callable(getattr(v, "cache_clear", None)) and hasattr(v, "__wrapped__"):
                self._add("lru", v, None, mod)
                stack.append(v.__wrapped__)
            elif hasattr(v, "__dict__") and type(v).__module__.startswith(PREFIX):
                self._add("ns", v, dict(vars(v)), mod)
                stack.extend(vars(v).values())

    # ------------------------------------------------------------------ restoring
    def restore(self):
        for kind, o, saved, _mod in list(self.entries.values()):
            try:
                if kind == "ns" or kind == "cls":
                    cur = vars(o)
                    if len(cur) == len(saved) and all(cur.get(k, _MISSING) is v for k, v in saved.items()):
                        continue
                    setter = type.__setattr__ if kind == "cls" else object.__setattr__
                    deleter = type.__delattr__ if kind == "cls" else object.__delattr__
                    if isinstance(o, types.ModuleType):
                        setter, deleter = types.ModuleType.__setattr__, types.ModuleType.__delattr__
                    for k in [k for k in cur if k not in saved]:
                        deleter(o, k)
                    for k, v in saved.items():
                        if cur.get(k, _MISSING) is not v:
                            if kind == "cls" and k in ("__dict__", "__weakref__"):
                                continue
                            setter(o, k, v)
                    self.restored += 1
                elif kind == "dict":
                    if len(o) == len(saved) and all(a[0] is b[0] and a[1] is b[1] for a, b in zip(o.items(), saved)):
                        continue
                    o.clear()
                    for k, v in saved:
                        dict.__setitem__(o, k, v)
                    self.restored += 1
                elif kind == "list":
                    if len(o) == len(saved) and all(a is b for a, b in zip(o, saved)):
                        continue
                    o[:] = saved
                    self.restored += 1
                elif kind == "set":
                    if len(o) == len(saved) and all(a is b for a, b in zip(o, saved)):
                        continue
                    o.clear()
                    o.update(saved)
                    self.restored += 1
                elif kind == "ba":
                    if bytes(o) != saved:
                        o[:] = saved
                        self.restored += 1
                elif kind == "weak":
                    if len(o) != len(saved) or any(o.get(k, _MISSING) is not v for k, v in saved):
                        o.clear()
                        for k, v in saved:
                            o[k] = v
                        self.restored += 1
                elif kind == "lru":
                    o.cache_clear()
            except Exception:
                pass   # an object that cannot be put back is left as it is (the replay decides in any case)
