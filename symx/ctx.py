"""Harness contexts.  A harness is an ordinary python function h(ctx, **params)
that drives the real library and states the property through ctx.check(...).
It runs unchanged in two modes:

  SymCtx       inputs are solver variables; ctx.check asks z3 whether the path
               condition admits a violation (the deciding step of every check);
  ConcreteCtx  inputs come from a replay file; ctx.check evaluates on plain
               python values against the *uninstrumented* library (no z3 import).
"""


class Skip(Exception):
    """harness: this configuration is not an instance of the property"""


class ConcreteCtx:
    symbolic = False

    def __init__(self, inputs, deviations=(), canary=None):
        self.inputs = inputs
        self.failures = []
        self.checked = []
        self.deviations = set(deviations)
        self.canary = None
        self.notes = {}

    def int(self, name, bits=None, lo=None, hi=None):
        # an input the solver left unconstrained is absent from the model: any value works, take the smallest
        return int(self.inputs.get(name, lo or 0))

    def bytes(self, name, n):
        if name not in self.inputs:
            return bytearray(n)
        return bytearray.fromhex(self.inputs[name])

    def str(self, name, n):
        v = self.inputs.get(name)
        return v if v is not None else "\x00" * n

    def zeros(self, name, n):
        return bytearray(n)

    def choose(self, name, labels):
        return int(self.inputs.get(name, 0))

    def assume(self, cond):
        if not cond:
            raise Skip("assumption does not hold for these inputs")

    def record(self, name, value):
        pass

    def inconclusive(self, label, why=""):
        pass

    def check(self, label, cond, msg="", decided_by_solver=False):
        self.checked.append(label)
        if not cond:
            self.failures.append(label)
        return bool(cond)

    def oracle(self, v):
        return v

    def oracle_struct(self, v):
        return v

    def select(self, table, idx):
        """table[idx] for a list of ints and a (possibly symbolic) index"""
        return table[idx]

    def known(self, dev):
        return dev in self.deviations

    def attempt(self, fn, *a, **k):
        try:
            return ("ok", fn(*a, **k))
        except Exception as e:  # noqa
            return ("exc", e)

    def concrete(self, v):
        return v

    def note(self, k, v):
        self.notes[k] = v

    def is_concrete(self, v):
        return True

    def ticks(self):
        return None
