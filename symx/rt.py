"""Runtime helpers the instrumented repo modules call (see loader.py).

With no exploration active and no symbolic argument every helper falls straight
through to the original operation, so instrumented modules behave exactly like
the originals (checked by selftest on every run).
"""
import builtins

import z3

from . import explore as _ex
from .values import OpaqueStr, SymBool, SymBytes, SymInt, SymStr, _cell_ok, conc

_bytearray = builtins.bytearray
_bytes = builtins.bytes
_len = builtins.len
_print = builtins.print
_isinstance = builtins.isinstance
_range = builtins.range
_hex = builtins.hex
_int = builtins.int

TICKS = [0]  # concrete tick counter (used when no explorer is active)
ALLOC_LOG = None  # when a list: (kind, size_expr) of allocations sized by symbolic terms


def tick():
    e = _ex._CUR
    if e is not None:
        e.tick()
    else:
        TICKS[0] += 1


# ------------------------------------------------------------------ models
def _m_bytearray(*a, **k):
    if not a:
        return SymBytes([])
    x = a[0]
    if _isinstance(x, str):
        return SymBytes(list(_bytes(x, *a[1:], **k)))
    if _isinstance(x, (SymInt, SymBool)):
        if _isinstance(x, SymBool):
            x = x.as_int()
        if x.hi < 0:
            raise ValueError("negative count")
        if x.lo < 0:
            if x < 0:
                raise ValueError("negative count")
        if ALLOC_LOG is not None:
            ALLOC_LOG.append(("bytearray", x))
        if x.lo == x.hi:
            return SymBytes([0] * x.lo)
        return SymBytes(symlen=x)
    if _isinstance(x, int):
        if x < 0:
            raise ValueError("negative count")
        return SymBytes([0] * x)
    return SymBytes(SymBytes.of(x))


def _m_bytes(*a, **k):
    r = _m_bytearray(*a, **k)
    r.mutable = False
    return r


def _m_len(x):
    if _isinstance(x, SymStr):
        return _len(x.c)
    if _isinstance(x, SymBytes) and x.symlen is not None:
        return x.symlen
    return _len(x)


def _m_print(*a, **k):
    return None


def _m_isinstance(o, t):
    if _isinstance(o, SymBytes):
        ts = t if _isinstance(t, tuple) else (t,)
        if any(x in (_bytearray, _bytes) for x in ts):
            if _bytearray in ts and o.mutable:
                return True
            if _bytes in ts and not o.mutable:
                return True
            return False
    if _isinstance(o, SymInt):
        ts = t if _isinstance(t, tuple) else (t,)
        if _int in ts:
            return True
    if _isinstance(o, SymBool):
        ts = t if _isinstance(t, tuple) else (t,)
        if bool in ts or _int in ts:
            return True
    if _isinstance(o, OpaqueStr):
        ts = t if _isinstance(t, tuple) else (t,)
        if str in ts:
            return True
    return _isinstance(o, t)


def _m_hex(x):
    if _isinstance(x, (SymInt, SymBool)):
        return _hex(conc(x))
    return _hex(x)


def _m_int(*a, **k):
    if a and _isinstance(a[0], SymInt) and _len(a) == 1:
        return a[0]
    if a and _isinstance(a[0], SymBool):
        return a[0].as_int()
    return _int(*a, **k)


def _m_range(*a):
    if _len(a) == 2 and _isinstance(a[0], SymInt) and a[0].lo != a[0].hi:
        # range(start, start + n) with symbolic start and constant n: symbolic elements, no enumeration
        d = a[1] - a[0]
        if _isinstance(d, SymInt):
            t = z3.simplify(d.t)
            if z3.is_bv_value(t):
                n = t.as_signed_long()
                return [a[0] + i for i in _range(max(0, n))]
        elif _isinstance(d, _int):
            return [a[0] + i for i in _range(max(0, d))]
    e = _ex._CUR
    for x in a:
        if _isinstance(x, SymInt) and x.lo != x.hi:
            if ALLOC_LOG is not None:
                ALLOC_LOG.append(("range", x))
            if e is not None and e.tick_budget is not None and x.hi > e.tick_budget:
                # an iteration count taken from symbolic data: more iterations than the step budget is a budget
                # overrun by itself (decided by the solver), not something to enumerate value by value
                if x > e.tick_budget:
                    raise _ex.BudgetExceeded()
    return _range(*[conc(x) for x in a])


def _m_type(*a):
    if _len(a) == 1:
        if _isinstance(a[0], SymBytes):
            return _bytearray if a[0].mutable else _bytes
        if _isinstance(a[0], SymInt):
            return _int
        if _isinstance(a[0], SymBool):
            return bool
    return type(*a)


def int_to_bytes(v, n, order="big"):
    n = conc(n)
    cells = []
    for i in range(n):
        cells.append((v >> (8 * i)) & 0xFF)
    if order == "big":
        cells.reverse()
    return SymBytes(cells, mutable=False)


def _m_from_bytes(b, order="big", signed=False):
    cells = SymBytes.of(b)
    if order == "little":
        cells = cells[::-1]
    acc = 0
    for c in cells:
        acc = (acc << 8) | c
    return acc


import struct as _struct

_SIZES = {"B": 1, "b": 1, "H": 2, "h": 2, "I": 4, "i": 4, "L": 4, "l": 4, "Q": 8, "q": 8}


def _fmt_items(fmt):
    order = "big"
    if fmt and fmt[0] in "<>=!@":
        order = "little" if fmt[0] == "<" else ("big" if fmt[0] in ">!" else __import__("sys").byteorder)
        fmt = fmt[1:]
    items = []
    import re
    for cnt, ch in re.findall(r"(\d*)([A-Za-z])", fmt):
        if ch not in _SIZES:
            return None, None
        items += [ch] * (int(cnt) if cnt else 1)
    return order, items


def _m_struct_pack(fmt, *vals):
    if not any(_isinstance(v, (SymInt, SymBool)) for v in vals):
        return _struct.pack(fmt, *vals)
    order, items = _fmt_items(fmt)
    if items is None or _len(items) != _len(vals):
        return _struct.pack(fmt, *[conc(v) for v in vals])
    out = []
    for ch, v in zip(items, vals):
        n = _SIZES[ch]
        if _isinstance(v, SymBool):
            v = v.as_int()
        if _isinstance(v, SymInt):
            lo, hi = (0, (1 << (8 * n)) - 1) if ch.isupper() else (-(1 << (8 * n - 1)), (1 << (8 * n - 1)) - 1)
            if not ((v >= lo) & (v <= hi) if True else True):
                raise _struct.error("argument out of range")
        cells = [(v >> (8 * i)) & 0xFF for i in _range(n)]
        if order == "big":
            cells.reverse()
        out += cells
    return SymBytes(out, mutable=False)


def _m_struct_unpack(fmt, data):
    if not (_isinstance(data, SymBytes) and data.is_symbolic()):
        return _struct.unpack(fmt, bytes(data.concrete()) if _isinstance(data, SymBytes) else data)
    order, items = _fmt_items(fmt)
    cells = SymBytes.of(data)
    if items is None or sum(_SIZES[c] for c in items) != _len(cells):
        return _struct.unpack(fmt, bytes(data.concrete()))
    res, pos = [], 0
    for ch in items:
        n = _SIZES[ch]
        part = cells[pos:pos + n]
        pos += n
        if order == "little":
            part = part[::-1]
        acc = 0
        for c in part:
            acc = (acc << 8) | c
        if ch.islower():  # signed
            sign = (acc >> (8 * n - 1)) & 1
            acc = acc - (sign << (8 * n))
        res.append(acc)
    return tuple(res)


def _fmt_size(fmt):
    order, items = _fmt_items(fmt)
    return None if items is None else sum(_SIZES[c] for c in items)


def _m_struct_unpack_from(fmt, buffer, offset=0):
    if not (_isinstance(buffer, SymBytes) and buffer.is_symbolic()) and not _symbolic(offset):
        return _struct.unpack_from(fmt, bytes(buffer.concrete()) if _isinstance(buffer, SymBytes) else buffer, offset)
    n = _fmt_size(fmt)
    off = conc(offset)
    cells = SymBytes.of(buffer)
    if n is None:
        return _struct.unpack_from(fmt, bytes(SymBytes(cells).concrete()), off)
    if off < 0:
        off += _len(cells)
    if off < 0 or off + n > _len(cells):
        raise _struct.error("unpack_from requires a buffer of at least %d bytes for unpacking %d bytes at offset %d"
                            % (off + n, n, off))
    return _m_struct_unpack(fmt, SymBytes(cells[off:off + n], mutable=False))


def _m_struct_iter_unpack(fmt, buffer):
    if not (_isinstance(buffer, SymBytes) and buffer.is_symbolic()):
        return _struct.iter_unpack(fmt, bytes(buffer.concrete()) if _isinstance(buffer, SymBytes) else buffer)
    n = _fmt_size(fmt)
    cells = SymBytes.of(buffer)
    if n is None:
        return _struct.iter_unpack(fmt, bytes(SymBytes(cells).concrete()))
    if n == 0 or _len(cells) % n:
        raise _struct.error("iterative unpacking requires a buffer of a multiple of %d bytes" % n)
    return iter([_m_struct_unpack(fmt, SymBytes(cells[i:i + n], mutable=False)) for i in _range(0, _len(cells), n)])


def _m_struct_pack_into(fmt, buffer, offset, *vals):
    if not any(_isinstance(v, (SymInt, SymBool)) for v in vals) and not _isinstance(buffer, SymBytes):
        return _struct.pack_into(fmt, buffer, offset, *vals)
    packed = _m_struct_pack(fmt, *vals)
    off = conc(offset)
    if off < 0:
        off += _len(buffer)
    if off < 0 or off + _len(packed) > _len(buffer):
        raise _struct.error("pack_into requires a buffer of at least %d bytes" % (off + _len(packed)))
    buffer[off:off + _len(packed)] = packed
    return None


MODELS = {
    _struct.pack: _m_struct_pack,
    _struct.unpack: _m_struct_unpack,
    _struct.unpack_from: _m_struct_unpack_from,
    _struct.iter_unpack: _m_struct_iter_unpack,
    _struct.pack_into: _m_struct_pack_into,
    _bytearray: _m_bytearray,
    _bytes: _m_bytes,
    _len: _m_len,
    _print: _m_print,
    _isinstance: _m_isinstance,
    _hex: _m_hex,
    _int: _m_int,
    _range: _m_range,
}


def _symbolic(x):
    return _isinstance(x, (SymInt, SymBool, SymBytes, OpaqueStr, SymStr))


from . import trace as _trace


def call(f, *a, **k):
    if _trace.TR is not None:
        _trace.method_call(f, a)
    if _ex._CUR is not None:
        try:
            m = MODELS.get(f)
        except TypeError:
            m = None
        if m is not None:
            return m(*a, **k)
        if f is type and _len(a) == 1:
            return _m_type(*a)
        # bound methods of real bytes/str objects with symbolic arguments
        s = getattr(f, "__self__", None)
        if s is not None and not _isinstance(s, type):
            if _isinstance(s, (_bytes, _bytearray)) and f.__name__ == "join":
                out = []
                for part in a[0]:
                    if out and _len(s):
                        out.extend(s)
                    out.extend(SymBytes.of(part))
                return SymBytes(out, mutable=_isinstance(s, _bytearray))
            if _isinstance(s, _struct.Struct) and any(_symbolic(x) for x in a):
                if f.__name__ == "pack":
                    return _m_struct_pack(s.format, *a)
                if f.__name__ == "unpack":
                    return _m_struct_unpack(s.format, *a)
                if f.__name__ == "unpack_from":
                    return _m_struct_unpack_from(s.format, a[0], a[1] if _len(a) > 1 else k.get("offset", 0))
                if f.__name__ == "iter_unpack":
                    return _m_struct_iter_unpack(s.format, a[0])
                if f.__name__ == "pack_into":
                    return _m_struct_pack_into(s.format, *a)
        elif getattr(f, "__objclass__", None) is _int and a and _isinstance(a[0], (SymInt, SymBool)) \
                and hasattr(SymInt, getattr(f, "__name__", "")):
            # unbound int method on a proxy: int.to_bytes(x, n, "big"), int.bit_length(x), ...
            x = a[0].as_int() if _isinstance(a[0], SymBool) else a[0]
            return getattr(x, f.__name__)(*a[1:], **k)
        elif s is _int and getattr(f, "__name__", "") == "from_bytes":
            # (int.from_bytes is a fresh builtin-method object on every attribute access: compare by owner and name)
            if a and _isinstance(a[0], SymBytes) or any(_symbolic(x) for x in (a[0] if a and _isinstance(a[0], (list, tuple)) else ())):
                if k.get("signed"):
                    cells = SymBytes.of(a[0])
                    v = _m_from_bytes(a[0], *(a[1:2] or (k.get("byteorder", "big"),)))
                    n = _len(cells)
                    return v - (((v >> (8 * n - 1)) & 1) << (8 * n)) if n else 0
                return _m_from_bytes(a[0], *(a[1:2] or (k.get("byteorder", "big"),)))
    return f(*a, **k)


def getitem(a, i):
    if _trace.TR is not None:
        v = a[i]
        _trace.read_item(a, i, v)
        return v
    ti = type(i)
    if ti is _int or ti is str:
        return a[i]
    if ti is SymInt or ti is SymBool:
        if ti is SymBool:
            i = i.as_int()
        if _isinstance(a, dict):
            return _dict_lookup(a, i)
        if _isinstance(a, (list, tuple, _bytes, _bytearray, str, _range)):
            return a[conc(i)]
    elif ti is slice and _isinstance(a, (_bytes, _bytearray, list, tuple, str)):
        if _symbolic(i.start) or _symbolic(i.stop) or _symbolic(i.step):
            if _isinstance(a, (_bytes, _bytearray)):
                return SymBytes(list(a), mutable=_isinstance(a, _bytearray))[i]
            return a[slice(conc(i.start), conc(i.stop), conc(i.step))]
    return a[i]


def _dict_lookup(d, k):
    """dict[k] with symbolic int key: one n-ary fork over the int keys (+ miss)"""
    e = _ex.cur()
    if k.lo == k.hi:
        return d[k.lo]
    if any(type(x) is SymInt for x in d.keys()):
        # keys that are solver variables themselves (each already pinned to one value when it was hashed on
        # insertion): python's own look-up -- hash(k) forks on k's value, == decides against the stored keys
        return d[k]
    keys = [x for x in d.keys() if _isinstance(x, _int) and not _isinstance(x, bool) and k.lo <= x <= k.hi]
    if e.abstract_dicts and _len(keys) > 16 and all(_isinstance(d[x], str) for x in keys):
        # big text table: fork on hit / miss only; a hit yields an opaque string (over-approximation
        # that is exact for everything except the text itself)
        hit = z3.Or(*[k.t == z3.BitVecVal(x, k.w) for x in keys])
        if e._kary([hit, z3.Not(hit)]) == 1:
            raise KeyError(k)
        return OpaqueStr()
    conds = [k.t == z3.BitVecVal(x, k.w) for x in keys]
    conds.append(z3.And(*[z3.Not(c) for c in conds]) if conds else z3.BoolVal(True))
    i = e._kary(conds)
    if i == _len(keys):
        raise KeyError(k)
    return d[keys[i]]


def contains(c, x, negate=False):
    r = _contains(c, x)
    if negate:
        return (not r) if _isinstance(r, bool) else ~r
    return r


def _contains(c, x):
    if _isinstance(x, SymBool):
        x = x.as_int()
    if _isinstance(x, SymInt):
        if _isinstance(c, _range):
            if c.step == 1:
                if _len(c) == 0:
                    return False
                return _and(x >= c.start, x < c.stop)
            c = list(c)
        if _isinstance(c, (list, tuple, set, frozenset, dict)) or hasattr(c, "keys") and callable(getattr(c, "keys", None)):
            acc = []
            for e in (c.keys() if _isinstance(c, dict) else c):
                r = (x == e)
                if r is True:
                    return True
                if r is False:
                    continue
                acc.append(r.t)
            if not acc:
                return False
            return SymBool(z3.Or(*acc) if _len(acc) > 1 else acc[0])
        if _isinstance(c, SymBytes):
            acc = []
            for e in c:
                r = (x == e)
                if r is True:
                    return True
                if r is not False:
                    acc.append(r.t)
            return SymBool(z3.Or(*acc)) if acc else False
        return conc(x) in c
    if _isinstance(c, (list, tuple)) and any(_isinstance(e, (SymInt, SymBool)) for e in c):
        acc = []
        for e in c:
            r = (e == x)
            if r is True:
                return True
            if r is not False:
                acc.append(r.t)
        return SymBool(z3.Or(*acc)) if acc else False
    return x in c


def _and(a, b):
    if _isinstance(a, bool):
        return b if a else False
    if _isinstance(b, bool):
        return a if b else False
    return a & b


_FMT_INT = set("dioxXcu")
_FMT_FLOAT = set("eEfFgG")


def mod(l, r):
    """l % r ; string formatting with symbolic operands yields a placeholder string
    after checking that every conversion is legal for its operand (so that a
    TypeError the real code would raise is still raised)"""
    if _isinstance(l, str):
        args = r if _isinstance(r, tuple) else (r,)
        if any(_symbolic(x) for x in args):
            import re
            convs = re.findall(r"%(?:\((\w+)\))?[#0\- +]*(?:\*|\d+)?(?:\.(?:\*|\d+))?[hlL]?(.)", l)
            convs = [c for c in convs if c[1] != "%"]
            if _isinstance(r, dict):
                return l % {kk: (0 if _symbolic(v) else v) for kk, v in r.items()}
            if _len(convs) != _len(args):
                # let python raise the real error with stand-in values
                return l % tuple(0 if _symbolic(x) else x for x in args)
            out = []
            for (name, conv), x in zip(convs, args):
                if _isinstance(x, (SymInt, SymBool)):
                    out.append(0)
                elif _isinstance(x, (SymBytes, OpaqueStr, SymStr)):
                    if conv in _FMT_INT or conv in _FMT_FLOAT:
                        raise TypeError("%%%s format: a real number is required, not %s"
                                        % (conv, "bytearray" if _isinstance(x, SymBytes) else "str"))
                    out.append("<sym>")
                else:
                    out.append(x)
            return l % tuple(out)
    return l % r
