"""Symbolic value domain for symx: proxies that build z3 terms while the real
/repo code runs on them.

SymInt   -- a Python int as a *signed* two's-complement bit-vector whose width is
            tracked and grows with every operation, so that (like Python ints)
            nothing ever wraps.  A conservative integer interval [lo, hi] is
            carried along and used to decide comparisons / byte-range checks
            without the solver whenever it can.
SymBool  -- a z3 Bool; bool() asks the explorer to branch.
SymBytes -- bytearray/bytes stand-in: a list of cells (python ints or SymInts in
            0..255) with concrete length, or a zero buffer of *symbolic* length.
"""
import z3

from . import explore as _ex

__all__ = ["SymInt", "SymBool", "SymBytes", "OpaqueStr", "is_sym", "lift", "conc"]


def _bl(v):
    """width of the smallest signed BV holding python int v"""
    return (v.bit_length() if v >= 0 else (-v - 1).bit_length()) + 1


def _sext(t, w, to):
    if to == w:
        return t
    return z3.SignExt(to - w, t)


class SymBool:
    __slots__ = ("t",)

    def __init__(self, t):
        self.t = t

    def __bool__(self):
        return _ex.cur().branch(self.t)

    def __invert__(self):
        return SymBool(z3.Not(self.t))

    def __and__(self, o):
        if isinstance(o, SymBool):
            return SymBool(z3.And(self.t, o.t))
        if isinstance(o, bool):
            return self if o else False
        return self.as_int() & o

    __rand__ = __and__

    def __or__(self, o):
        if isinstance(o, SymBool):
            return SymBool(z3.Or(self.t, o.t))
        if isinstance(o, bool):
            return True if o else self
        return self.as_int() | o

    __ror__ = __or__

    def as_int(self):
        return SymInt(z3.If(self.t, z3.BitVecVal(1, 2), z3.BitVecVal(0, 2)), 2, 0, 1)

    def __eq__(self, o):
        if isinstance(o, SymBool):
            return SymBool(self.t == o.t)
        if isinstance(o, bool):
            return self if o else SymBool(z3.Not(self.t))
        return self.as_int() == o

    def __ne__(self, o):
        r = self.__eq__(o)
        return (not r) if isinstance(r, bool) else ~r

    def __hash__(self):
        return hash(bool(self))

    def __index__(self):
        return int(bool(self))

    __int__ = __index__

    def __add__(self, o):
        return self.as_int() + o

    __radd__ = __add__

    def __mul__(self, o):
        return self.as_int() * o

    __rmul__ = __mul__

    def __lshift__(self, o):
        return self.as_int() << o

    def __repr__(self):
        return "<SymBool>"


class SymInt:
    __slots__ = ("t", "w", "lo", "hi")

    def __init__(self, t, w, lo=None, hi=None):
        self.t = t
        self.w = w
        self.lo = -(1 << (w - 1)) if lo is None else lo
        self.hi = (1 << (w - 1)) - 1 if hi is None else hi

    # -- construction helpers -------------------------------------------------
    @staticmethod
    def const(v):
        w = _bl(v)
        return SymInt(z3.BitVecVal(v, w), w, v, v)

    @staticmethod
    def _co(o):
        if isinstance(o, SymInt):
            return o
        if isinstance(o, bool):
            return SymInt.const(int(o))
        if isinstance(o, int):
            return SymInt.const(o)
        if isinstance(o, SymBool):
            return o.as_int()
        return None

    def ext(self, to):
        return _sext(self.t, self.w, to)

    def fit(self):
        """narrow the carrier width to what the interval needs (keeps terms small)"""
        need = max(_bl(self.lo), _bl(self.hi))
        if need < self.w:
            return SymInt(z3.Extract(need - 1, 0, self.t), need, self.lo, self.hi)
        return self

    # -- arithmetic -----------------------------------------------------------
    def __add__(self, o):
        o = SymInt._co(o)
        if o is None:
            return NotImplemented
        if o.lo == o.hi == 0:
            return self
        w = max(self.w, o.w) + 1
        return SymInt(self.ext(w) + o.ext(w), w, self.lo + o.lo, self.hi + o.hi).fit()

    def __radd__(self, o):
        o = SymInt._co(o)
        if o is None:
            return NotImplemented
        return o.__add__(self)

    def __sub__(self, o):
        o = SymInt._co(o)
        if o is None:
            return NotImplemented
        w = max(self.w, o.w) + 1
        return SymInt(self.ext(w) - o.ext(w), w, self.lo - o.hi, self.hi - o.lo).fit()

    def __rsub__(self, o):
        o = SymInt._co(o)
        if o is None:
            return NotImplemented
        return o.__sub__(self)

    def __neg__(self):
        w = self.w + 1
        return SymInt(-self.ext(w), w, -self.hi, -self.lo).fit()

    def __pos__(self):
        return self

    def __mul__(self, o):
        o = SymInt._co(o)
        if o is None:
            return NotImplemented
        if o.lo == o.hi:
            c = o.lo
            if c == 0:
                return 0
            if c == 1:
                return self
            if c > 0 and c & (c - 1) == 0:
                return self << (c.bit_length() - 1)
        if self.lo == self.hi:
            return o.__mul__(self.lo)
        w = self.w + o.w
        cs = [self.lo * o.lo, self.lo * o.hi, self.hi * o.lo, self.hi * o.hi]
        return SymInt(self.ext(w) * o.ext(w), w, min(cs), max(cs)).fit()

    def __rmul__(self, o):
        return self.__mul__(o)

    def _divmod_const(self, d):
        # python floor semantics, d > 0 concrete
        w = max(self.w, _bl(d)) + 1
        a = self.ext(w)
        dv = z3.BitVecVal(d, w)
        m = z3.SRem(a, dv)  # sign follows dividend
        m = z3.If(m < 0, m + dv, m)  # floor modulo for positive divisor
        q = (a - m) / dv  # exact signed division
        return (SymInt(q, w, self.lo // d, self.hi // d).fit(),
                SymInt(m, w, 0, d - 1).fit())

    def __floordiv__(self, o):
        if isinstance(o, (SymInt, SymBool)):
            o = conc(o)
        if not isinstance(o, int):
            return NotImplemented
        if o == 0:
            raise ZeroDivisionError("integer division or modulo by zero")
        if o < 0:
            return (-self)._divmod_const(-o)[0]
        return self._divmod_const(o)[0]

    def __mod__(self, o):
        if isinstance(o, (SymInt, SymBool)):
            o = conc(o)
        if not isinstance(o, int):
            return NotImplemented
        if o == 0:
            raise ZeroDivisionError("integer division or modulo by zero")
        if o < 0:
            return -((-self)._divmod_const(-o)[1])
        return self._divmod_const(o)[1]

    def __rfloordiv__(self, o):
        return o // conc(self)

    def __rmod__(self, o):
        if isinstance(o, str):
            return NotImplemented
        return o % conc(self)

    def __truediv__(self, o):
        return conc(self) / conc(o)

    def __rtruediv__(self, o):
        return conc(o) / conc(self)

    def __pow__(self, o):
        return conc(self) ** conc(o)

    def __rpow__(self, o):
        return conc(o) ** conc(self)

    def __divmod__(self, o):
        return (self // o, self % o)

    def __abs__(self):
        if self.lo >= 0:
            return self
        if self < 0:
            return -self
        return self

    # -- shifts ---------------------------------------------------------------
    def __lshift__(self, k):
        if isinstance(k, SymInt) and k.lo != k.hi and 0 <= k.lo and k.hi <= 1024:
            w = self.w + k.hi
            kt = z3.ZeroExt(w - k.w, k.t) if w > k.w else z3.Extract(w - 1, 0, k.t)
            lo = min(self.lo << k.lo, self.lo << k.hi)
            hi = max(self.hi << k.lo, self.hi << k.hi)
            return SymInt(self.ext(w) << kt, w, lo, hi)
        if isinstance(k, (SymInt, SymBool)):
            k = conc(k)
        if not isinstance(k, int):
            return NotImplemented
        if k < 0:
            raise ValueError("negative shift count")
        if k == 0:
            return self
        w = self.w + k
        return SymInt(z3.Concat(self.t, z3.BitVecVal(0, k)), w, self.lo << k, self.hi << k)

    def __rlshift__(self, o):
        c = SymInt._co(o)
        if c is None:
            return NotImplemented
        return c.__lshift__(self)

    def __rshift__(self, k):
        if isinstance(k, SymInt) and k.lo != k.hi and 0 <= k.lo and k.hi <= 1024:
            w = max(self.w, k.w + 1)
            kt = z3.ZeroExt(w - k.w, k.t)
            lo = min(self.lo >> k.lo, self.lo >> k.hi)
            hi = max(self.hi >> k.lo, self.hi >> k.hi)
            # arithmetic shift; a count >= w yields the sign fill, as python does
            return SymInt(z3.If(z3.UGE(kt, z3.BitVecVal(w, w)),
                                z3.If(self.ext(w) < 0, z3.BitVecVal(-1, w), z3.BitVecVal(0, w)),
                                self.ext(w) >> kt), w, lo, hi).fit()
        if isinstance(k, (SymInt, SymBool)):
            k = conc(k)
        if not isinstance(k, int):
            return NotImplemented
        if k < 0:
            raise ValueError("negative shift count")
        if k == 0:
            return self
        lo, hi = self.lo >> k, self.hi >> k
        if k >= self.w - 1:
            s = z3.Extract(self.w - 1, self.w - 1, self.t)
            return SymInt(z3.SignExt(1, s), 2, lo, hi)
        return SymInt(z3.Extract(self.w - 1, k, self.t), self.w - k, lo, hi).fit()

    def __rrshift__(self, o):
        c = SymInt._co(o)
        if c is None:
            return NotImplemented
        return c.__rshift__(self)

    # -- bit operations -------------------------------------------------------
    def __and__(self, o):
        o = SymInt._co(o)
        if o is None:
            return NotImplemented
        if o.lo == o.hi and o.lo >= 0:
            c = o.lo
            if c == 0:
                return 0
            w = c.bit_length() + 1
            if self.w >= w:
                t = z3.ZeroExt(1, z3.Extract(w - 2, 0, self.t))
            else:
                t = self.ext(w)
            if c != (1 << (w - 1)) - 1:
                t = t & z3.BitVecVal(c, w)
            hi = c if self.lo < 0 else min(c, self.hi)
            return SymInt(t, w, 0, hi).fit()
        if self.lo == self.hi and self.lo >= 0:
            return o.__and__(self.lo)
        w = max(self.w, o.w)
        if self.lo >= 0 and o.lo >= 0:
            lo, hi = 0, min(self.hi, o.hi)
        elif self.lo >= 0:
            lo, hi = 0, self.hi
        elif o.lo >= 0:
            lo, hi = 0, o.hi
        else:
            lo = hi = None
        return SymInt(self.ext(w) & o.ext(w), w, lo, hi).fit()

    __rand__ = __and__

    def _orxor(self, o, op):
        o = SymInt._co(o)
        if o is None:
            return NotImplemented
        if o.lo == o.hi == 0:
            return self
        w = max(self.w, o.w)
        if self.lo >= 0 and o.lo >= 0:
            lo, hi = 0, (1 << max(self.hi.bit_length(), o.hi.bit_length())) - 1
        else:
            lo = hi = None
        return SymInt(op(self.ext(w), o.ext(w)), w, lo, hi).fit()

    def __or__(self, o):
        return self._orxor(o, lambda a, b: a | b)

    __ror__ = __or__

    def __xor__(self, o):
        return self._orxor(o, lambda a, b: a ^ b)

    __rxor__ = __xor__

    def __invert__(self):
        return SymInt(~self.t, self.w, -self.hi - 1, -self.lo - 1)

    # -- comparisons ----------------------------------------------------------
    def _cmp(self, o, op, iv):
        o = SymInt._co(o)
        if o is None:
            return NotImplemented
        r = iv(self, o)
        if r is not None:
            return r
        w = max(self.w, o.w)
        return SymBool(op(self.ext(w), o.ext(w)))

    def __lt__(self, o):
        return self._cmp(o, lambda a, b: a < b,
                         lambda a, b: True if a.hi < b.lo else (False if a.lo >= b.hi else None))

    def __le__(self, o):
        return self._cmp(o, lambda a, b: a <= b,
                         lambda a, b: True if a.hi <= b.lo else (False if a.lo > b.hi else None))

    def __gt__(self, o):
        return self._cmp(o, lambda a, b: a > b,
                         lambda a, b: True if a.lo > b.hi else (False if a.hi <= b.lo else None))

    def __ge__(self, o):
        return self._cmp(o, lambda a, b: a >= b,
                         lambda a, b: True if a.lo >= b.hi else (False if a.hi < b.lo else None))

    def __eq__(self, o):
        c = SymInt._co(o)
        if c is None:
            return False
        if self.hi < c.lo or self.lo > c.hi:
            return False
        if self.lo == self.hi == c.lo == c.hi:
            return True
        w = max(self.w, c.w)
        return SymBool(self.ext(w) == c.ext(w))

    def __ne__(self, o):
        r = self.__eq__(o)
        return (not r) if isinstance(r, bool) else ~r

    # -- concretisation points -----------------------------------------------
    def __bool__(self):
        if self.lo > 0 or self.hi < 0:
            return True
        if self.lo == self.hi == 0:
            return False
        return _ex.cur().branch(self.t != z3.BitVecVal(0, self.w))

    def __index__(self):
        return _ex.cur().concretize(self)

    __int__ = __index__

    def __hash__(self):
        return hash(_ex.cur().concretize(self))

    def __float__(self):
        return float(_ex.cur().concretize(self))

    def __repr__(self):
        return "<sym>"

    __str__ = __repr__

    def __format__(self, spec):
        return "<sym>"

    def bit_length(self):
        return conc(self).bit_length()

    def to_bytes(self, n, order="big"):
        from .rt import int_to_bytes
        return int_to_bytes(self, n, order)

    # term of exactly `bits` bits holding the (assumed in-range) value
    def low(self, bits):
        if self.w > bits:
            return z3.Extract(bits - 1, 0, self.t)
        if self.w == bits:
            return self.t
        return z3.SignExt(bits - self.w, self.t)


def _fitsw(v, w):
    return -(1 << (w - 1)) <= v <= (1 << (w - 1)) - 1


def is_sym(x):
    return isinstance(x, (SymInt, SymBool)) or (isinstance(x, SymBytes) and x.is_symbolic())


def lift(x):
    return SymInt._co(x)


def conc(x):
    """force a concrete python value (forks on the value)"""
    if isinstance(x, SymInt):
        return _ex.cur().concretize(x)
    if isinstance(x, SymBool):
        return bool(x)
    return x


def _cell_ok(v):
    """raise like bytearray if v is not a valid byte; branch if undecided"""
    if isinstance(v, SymBool):
        v = v.as_int()
    if isinstance(v, SymInt):
        if v.lo >= 0 and v.hi <= 255:
            return v
        if v.hi < 0 or v.lo > 255:
            raise ValueError("byte must be in range(0, 256)")
        inr = z3.And(v.t >= 0, v.t <= z3.BitVecVal(255, v.w)) if v.w > 9 else \
            z3.And(v.ext(10) >= 0, v.ext(10) <= 255)
        if _ex.cur().branch(inr):
            return SymInt(z3.ZeroExt(1, v.low(8)), 9, 0, 255)
        raise ValueError("byte must be in range(0, 256)")
    if isinstance(v, bool):
        v = int(v)
    if not isinstance(v, int):
        if hasattr(v, "__index__"):
            v = v.__index__()
        else:
            raise TypeError("'%s' object cannot be interpreted as an integer" % type(v).__name__)
    if not 0 <= v <= 255:
        raise ValueError("byte must be in range(0, 256)")
    return v


class OpaqueStr:
    """result of decoding bytes with symbolic content (termination analysis only):
    an over-approximation -- every operation the decoders perform on it chooses
    nondeterministically among all outcomes a real str could produce."""

    def rstrip(self, *a):
        return self

    strip = lstrip = rstrip

    def split(self, sep=None, maxsplit=-1):
        n = _ex.cur().choose(["split->1", "split->2", "split->3"])
        return [OpaqueStr() for _ in range(n + 1)]

    def __repr__(self):
        return "<opaque str>"

    __str__ = __repr__

    def __format__(self, s):
        return "<opaque str>"


class SymBytes:
    """mutable byte buffer (models both bytearray and bytes)"""
    __slots__ = ("c", "symlen", "mutable")

    def __init__(self, cells=(), symlen=None, mutable=True):
        self.c = list(cells)
        self.symlen = symlen  # SymInt: zero-filled buffer of symbolic length
        self.mutable = mutable

    # -- helpers --------------------------------------------------------------
    @staticmethod
    def of(x):
        """cells of any bytes-like / iterable of ints"""
        if isinstance(x, SymBytes):
            x._realise()
            return list(x.c)
        if isinstance(x, (bytes, bytearray, memoryview)):
            return list(bytes(x))
        if isinstance(x, str):
            raise TypeError("string argument without an encoding")
        return [_cell_ok(v) for v in x]

    def _realise(self):
        if self.symlen is not None:
            if self.symlen.hi > (1 << 22) and bool(self.symlen > (1 << 22)):
                # enumerating the contents of a multi-megabyte buffer of symbolic length is not attempted
                raise _ex.ForkCap()
            n = conc(self.symlen)
            self.symlen = None
            self.c = [0] * n

    def is_symbolic(self):
        return self.symlen is not None or any(isinstance(v, SymInt) for v in self.c)

    def sym_len(self):
        return self.symlen if self.symlen is not None else len(self.c)

    def concrete(self):
        self._realise()
        return bytearray(conc(v) for v in self.c)

    def __len__(self):
        self._realise()
        return len(self.c)

    def __bool__(self):
        if self.symlen is not None:
            return bool(self.symlen != 0)
        return len(self.c) > 0

    def __iter__(self):
        self._realise()
        return iter(list(self.c))

    def _slice(self, s):
        """resolve a slice with possibly symbolic bounds to concrete indices"""
        n = len(self.c)
        if s.step not in (None, 1):
            return range(*slice(conc(s.start), conc(s.stop), conc(s.step)).indices(n))
        lo = self._bound(s.start, 0, n)
        hi = self._bound(s.stop, n, n)
        return range(lo, max(lo, hi))

    @staticmethod
    def _bound(b, dflt, n):
        if b is None:
            return dflt
        if isinstance(b, SymBool):
            b = b.as_int()
        if isinstance(b, SymInt):
            if b.lo >= n:
                return n
            if b.lo >= 0:
                # clamp: value k for k < n, else n  --  one n-ary fork
                return _ex.cur().clamp(b, n)
            b = conc(b)
        if not isinstance(b, int):
            b = b.__index__()
        if b < 0:
            b = max(0, n + b)
        return min(b, n)

    def _sym_getitem(self, i):
        """indexing a zero buffer of symbolic length without enumerating the length"""
        n = self.symlen
        ex = _ex.cur()
        if isinstance(i, slice) and i.step in (None, 1):
            a = 0 if i.start is None else conc(i.start)
            b = None if i.stop is None else conc(i.stop)
            if a >= 0 and (b is None or b >= 0):
                if b is None:
                    w = n.w + 1
                    t = z3.If(n.ext(w) > a, n.ext(w) - a, z3.BitVecVal(0, w))
                    return SymBytes(symlen=SymInt(t, w, max(0, n.lo - a), max(0, n.hi - a)).fit(), mutable=self.mutable)
                if b <= a:
                    return SymBytes([], mutable=self.mutable)
                # result length L = clamp(n - a, 0, b - a): one n-ary fork over L
                conds = [n.t <= z3.BitVecVal(a, n.w)] if _fitsw(a, n.w) else [z3.BoolVal(True)]
                for k in range(1, b - a):
                    conds.append(n.t == z3.BitVecVal(a + k, n.w) if _fitsw(a + k, n.w) else z3.BoolVal(False))
                conds.append(n.t >= z3.BitVecVal(b, n.w) if _fitsw(b, n.w) else z3.BoolVal(False))
                L = ex._kary(conds)
                return SymBytes([0] * L, mutable=self.mutable)
        elif not isinstance(i, slice):
            k = conc(i)
            if k >= 0:
                if bool(n > k):
                    return 0
                raise IndexError("bytearray index out of range")
        self._realise()
        return self[i]

    def __getitem__(self, i):
        if self.symlen is not None:
            return self._sym_getitem(i)
        if isinstance(i, slice):
            return SymBytes([self.c[k] for k in self._slice(i)], mutable=self.mutable)
        if isinstance(i, (SymInt, SymBool)):
            i = conc(i)
        return self.c[i]  # IndexError message differs slightly from bytearray; type is the same

    def __setitem__(self, i, v):
        if not self.mutable:
            raise TypeError("'bytes' object does not support item assignment")
        self._realise()
        if isinstance(i, slice):
            r = self._slice(i)
            if isinstance(v, (int, SymInt)) and not isinstance(v, bool):
                raise TypeError("can assign only bytes, buffers, or iterables of ints in range(0, 256)")
            cells = SymBytes.of(v)
            if i.step not in (None, 1):
                if len(cells) != len(r):
                    raise ValueError("attempt to assign bytes of size %d to extended slice of size %d"
                                     % (len(cells), len(r)))
                for k, x in zip(r, cells):
                    self.c[k] = x
            else:
                self.c[r.start:r.start + len(r)] = cells
            return
        if isinstance(i, (SymInt, SymBool)):
            i = conc(i)
        if not -len(self.c) <= i < len(self.c):
            raise IndexError("bytearray index out of range")
        self.c[i] = _cell_ok(v)

    def __delitem__(self, i):
        self._realise()
        if isinstance(i, slice):
            r = self._slice(i)
            del self.c[r.start:r.start + len(r)]
        else:
            del self.c[conc(i)]

    def __add__(self, o):
        if not isinstance(o, (SymBytes, bytes, bytearray)):
            return NotImplemented
        self._realise()
        return SymBytes(self.c + SymBytes.of(o), mutable=self.mutable)

    def __radd__(self, o):
        if not isinstance(o, (bytes, bytearray)):
            return NotImplemented
        self._realise()
        return SymBytes(list(o) + self.c, mutable=isinstance(o, bytearray))

    def __iadd__(self, o):
        if not isinstance(o, (SymBytes, bytes, bytearray)):
            if isinstance(o, (str, int)):
                raise TypeError("can't concat %s to bytearray" % type(o).__name__)
            o = [_cell_ok(v) for v in o]
        self._realise()
        if not self.mutable:
            return SymBytes(self.c + SymBytes.of(o), mutable=False)
        self.c.extend(SymBytes.of(o))
        return self

    def __mul__(self, k):
        self._realise()
        return SymBytes(self.c * conc(k), mutable=self.mutable)

    def __eq__(self, o):
        if not isinstance(o, (SymBytes, bytes, bytearray)):
            return False
        a = self.sym_len()
        b = o.sym_len() if isinstance(o, SymBytes) else len(o)
        if isinstance(a, SymInt) or isinstance(b, SymInt):
            # zero buffers of symbolic length compare by length when both are zero-filled
            self._realise()
            if isinstance(o, SymBytes):
                o._realise()
        oc = SymBytes.of(o)
        if len(self.c) != len(oc):
            return False
        acc = []
        for x, y in zip(self.c, oc):
            e = (x == y)
            if e is False:
                return False
            if e is True:
                continue
            acc.append(e.t)
        if not acc:
            return True
        return SymBool(z3.And(*acc) if len(acc) > 1 else acc[0])

    def __ne__(self, o):
        r = self.__eq__(o)
        return (not r) if isinstance(r, bool) else ~r

    def __hash__(self):
        # bytes are hashable (a memo keyed by the bytes of a buffer is ordinary python); hashing pins every byte
        if self.mutable:
            raise TypeError("unhashable type: 'bytearray'")
        return hash(bytes(self.concrete()))

    def __contains__(self, v):
        for x in self.c:
            if x == v:
                return True
        return False

    def __repr__(self):
        if self.symlen is not None:
            return "<symbytes len=sym>"
        return "<symbytes %s>" % " ".join(("%02x" % v) if isinstance(v, int) else "??" for v in self.c)

    # -- bytes/bytearray methods the repo uses --------------------------------
    def copy(self):
        self._realise()
        return SymBytes(self.c, mutable=self.mutable)

    def append(self, v):
        self._realise()
        self.c.append(_cell_ok(v))

    def extend(self, it):
        self.__iadd__(it)

    def hex(self, *a):
        return self.concrete().hex(*a)

    def decode(self, encoding="utf-8", errors="strict"):
        self._realise()
        if all(isinstance(v, int) for v in self.c):
            return bytes(self.c).decode(encoding, errors)
        ex = _ex.cur()
        if not ex.allow_opaque:
            return bytes(self.concrete()).decode(encoding, errors)
        if ex.choose(["decode-ok", "decode-error"]) == 1:
            raise UnicodeDecodeError(encoding, b"?", 0, 1, "symbolic content (over-approximated)")
        return OpaqueStr()

    def rstrip(self, *a):
        return SymBytes(self.concrete().rstrip(*a), mutable=self.mutable)

    def ljust(self, width, fill=b" "):
        self._realise()
        width = conc(width)
        return SymBytes(self.c + list(fill) * max(0, width - len(self.c)), mutable=self.mutable)

    def rjust(self, width, fill=b" "):
        self._realise()
        width = conc(width)
        return SymBytes(list(fill) * max(0, width - len(self.c)) + self.c, mutable=self.mutable)

    def startswith(self, p):
        return bytes(self.concrete()).startswith(p)

    def find(self, sub, start=0, end=None):
        """first position of sub: one fork per candidate position whose bytes may match"""
        self._realise()
        pat = [sub] if isinstance(sub, int) else list(SymBytes.of(sub))
        n, m = len(self.c), len(pat)
        start, end, _ = slice(conc(start), None if end is None else conc(end)).indices(n)
        for i in range(start, end - m + 1):
            ok = True
            for j in range(m):
                e = (self.c[i + j] == pat[j])
                if e is False:
                    ok = False
                    break
                if e is not True:
                    ok = e if ok is True else (ok & e)
            if ok is True or (ok is not False and bool(ok)):
                return i
        return -1 if m or start > end else start

    def index(self, sub, start=0, end=None):
        i = self.find(sub, start, end)
        if i < 0:
            raise ValueError("subsection not found")
        return i

    def __bytes__(self):
        return bytes(self.concrete())


class SymStr:
    """a str of concrete length whose characters are symbolic 7-bit codes (only what the
    device-path dispatch needs: slicing, ==/!= with str, len, startswith, use as an opaque argument)"""
    __slots__ = ("c",)

    def __init__(self, chars):
        self.c = list(chars)

    def __len__(self):
        return len(self.c)

    def __getitem__(self, i):
        if isinstance(i, slice):
            return SymStr(self.c[slice(conc(i.start), conc(i.stop), conc(i.step))])
        return SymStr([self.c[conc(i)]])

    def _eq(self, o):
        if isinstance(o, str):
            o = [ord(ch) for ch in o]
        elif isinstance(o, SymStr):
            o = o.c
        else:
            return False
        if len(o) != len(self.c):
            return False
        acc = []
        for x, y in zip(self.c, o):
            e = (x == y)
            if e is False:
                return False
            if e is not True:
                acc.append(e.t)
        if not acc:
            return True
        return SymBool(z3.And(*acc) if len(acc) > 1 else acc[0])

    def __eq__(self, o):
        return self._eq(o)

    def __ne__(self, o):
        r = self._eq(o)
        return (not r) if isinstance(r, bool) else ~r

    def startswith(self, p, *a):
        return self[:len(p)] == p

    def __hash__(self):
        return hash(self.concrete())

    def concrete(self):
        return "".join(chr(conc(x)) for x in self.c)

    def __repr__(self):
        return "<symstr len=%d>" % len(self.c)

    __str__ = __repr__

    def __format__(self, spec):
        return "<symstr>"

    def __add__(self, o):
        if isinstance(o, SymStr):
            return SymStr(self.c + o.c)
        if isinstance(o, str):
            return SymStr(self.c + [ord(ch) for ch in o])
        return NotImplemented

    def __radd__(self, o):
        if isinstance(o, str):
            return SymStr([ord(ch) for ch in o] + self.c)
        return NotImplemented
