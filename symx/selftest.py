"""Translator validation (Serval-style), run by every check:
 (i)  a fixed sample of the repo's own tests is executed under the instrumented
      loader (all 45 in the thorough tier) -- instrumented modules with concrete
      values must behave exactly like the originals;
 (ii) seeded random concrete inputs are pushed through the converter kernels
      natively (uninstrumented source, exec'd privately) and through symx with
      the inputs pinned; results must be identical.
"""
import glob
import importlib.util
import os
import random
import sys
import time
import unittest

from . import loader


def _repo_tests(quick, seed):
    files = sorted(glob.glob(os.path.join(loader.REPO, "tests", "test_*.py")))
    if quick:
        rnd = random.Random(seed)
        files = rnd.sample(files, min(12, len(files)))
    ran = failed = 0
    details = []
    sys.path.insert(0, loader.REPO)
    try:
        for f in files:
            name = "tests." + os.path.basename(f)[:-3]
            for m in [m for m in sys.modules if m == name]:
                del sys.modules[m]
            try:
                mod = importlib.import_module(name)
                suite = unittest.defaultTestLoader.loadTestsFromModule(mod)
                res = unittest.TestResult()
                suite.run(res)
                ran += res.testsRun
                bad = len(res.failures) + len(res.errors)
                failed += bad
                if bad:
                    details.append("%s: %s" % (name, (res.failures + res.errors)[0][1][-300:]))
            except Exception as e:  # noqa
                failed += 1
                details.append("%s: import %r" % (name, e))
    finally:
        sys.path.remove(loader.REPO)
    return ran, failed, details


def _differential(seed, n):
    """native vs symx-with-pinned-inputs on the converter kernels"""
    import z3
    from .explore import Explorer
    from .values import SymBytes, SymInt
    src = open(os.path.join(loader.REPO, "pyscsi", "utils", "converter.py")).read()
    native = {}
    exec(compile(src, "converter-native", "exec"), native)
    inst = importlib.import_module("pyscsi.utils.converter")
    rnd = random.Random(seed)
    bad = []
    done = 0
    for k in range(n):
        span = rnd.randint(1, 9)
        lo = rnd.randint(0, 7)
        hibit = rnd.randint(max(lo, 8 * (span - 1)), 8 * span - 1)
        w = hibit - lo + 1
        mask = ((1 << w) - 1) << lo
        v = rnd.getrandbits(w)
        off = rnd.randint(0, 3)
        size = off + span + rnd.randint(0, 2)
        nat = bytearray(size)
        native["encode_dict"]({"f": v}, {"f": [mask, off]}, nat)
        nd = {}
        native["decode_bits"](nat, {"f": [mask, off]}, nd)
        ex = Explorer(seed=seed)
        got = {}

        def fn():
            sv = SymInt(z3.ZeroExt(1, z3.BitVec("v", w)), w + 1, 0, (1 << w) - 1)
            ex.assume(sv == v)
            buf = SymBytes([0] * size)
            inst.encode_dict({"f": sv}, {"f": [mask, off]}, buf)
            d = {}
            inst.decode_bits(buf, {"f": [mask, off]}, d)
            got["buf"] = bytes(buf.concrete())
            got["v"] = int(d["f"])
        paths = list(ex.explore(fn))
        done += 1
        if len(paths) != 1 or paths[0].outcome != "return" or got.get("buf") != bytes(nat) or got.get("v") != nd["f"]:
            bad.append({"mask": hex(mask), "off": off, "v": v, "native": nat.hex(), "symx": got.get("buf", b"").hex(),
                        "outcome": [p.outcome for p in paths]})
        # plain concrete run through the instrumented module must agree too
        b2 = bytearray(size)
        inst.encode_dict({"f": v}, {"f": [mask, off]}, b2)
        if b2 != nat:
            bad.append({"concrete-instrumented": b2.hex(), "native": nat.hex()})
    return done, bad


def run(prop, tier, seed, quick=True):
    t0 = time.time()
    ran, failed, details = _repo_tests(quick, seed)
    done, bad = _differential(seed, 12 if quick else 60)
    ok = failed == 0 and not bad and ran > 0
    return {"ok": ok, "repo_tests_run_under_instrumentation": ran, "repo_tests_failed": failed,
            "differential_cases": done, "differential_mismatches": len(bad),
            "detail": (details + [str(b) for b in bad])[:3], "instrumentation_counts": dict(loader.COUNTS),
            "wall_s": round(time.time() - t0, 2)}
