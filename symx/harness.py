"""Symbolic harness context, obligation runner (parallel), replay confirmation,
known-finding protocol and evidence writer."""
import importlib
import json
import multiprocessing as mp
import os
import random
import subprocess
import sys
import time
import traceback

import z3

from . import explore as _ex
from . import loader
from .ctx import ConcreteCtx, Skip
from .values import SymBool, SymBytes, SymInt, SymStr, conc

VERIF = os.path.dirname(os.path.dirname(os.path.abspath(__file__)))
EXIT_HARNESS = 3
DEFAULT_OB_TIMEOUT = [90]  # seconds per obligation task (driver: 90 quick / 3000 thorough)
DEFAULT_FORK_CAP = [256]  # value-forks per obligation task (driver: 256 quick / 2048 thorough)


class SymCtx:
    symbolic = True

    def __init__(self, ex, deviations=(), canary=None):
        self.ex = ex
        self.deviations = set(deviations)
        self.canary = canary  # index of the oracle() call to perturb, or None
        self._reset()
        self.results = []  # (label, status, inputs|None)
        self.notes = {}
        self.msgs = {}
        self.sample_smt = None

    def _reset(self):
        self.inputs = {}  # name -> ('int', term, bits) | ('bytes', [terms]) | ('choice', idx)
        self._oracle_calls = 0

    # ---- inputs
    def int(self, name, bits, lo=None, hi=None):
        v = z3.BitVec(name, bits)
        self.inputs[name] = ("int", v, bits)
        s = SymInt(z3.ZeroExt(1, v), bits + 1, 0, (1 << bits) - 1)
        if lo is not None and lo > 0:
            self.ex.assume(s >= lo)
            s = SymInt(s.t, s.w, lo, s.hi)
        if hi is not None and hi < (1 << bits) - 1:
            self.ex.assume(s <= hi)
            s = SymInt(s.t, s.w, s.lo, hi).fit()
        return s

    def bytes(self, name, n):
        vs = [z3.BitVec("%s_%d" % (name, i), 8) for i in range(n)]
        self.inputs[name] = ("bytes", vs)
        return SymBytes([SymInt(z3.ZeroExt(1, v), 9, 0, 255) for v in vs])

    def str(self, name, n):
        """a string of n symbolic 7-bit characters"""
        vs = [z3.BitVec("%s_%d" % (name, i), 7) for i in range(n)]
        self.inputs[name] = ("str", vs)
        return SymStr([SymInt(z3.ZeroExt(1, v), 8, 0, 127) for v in vs])

    def zeros(self, name, n):
        """zero buffer whose length is the (possibly symbolic) n"""
        if isinstance(n, SymInt) and n.lo != n.hi:
            return SymBytes(symlen=n)
        return SymBytes([0] * conc(n))

    def choose(self, name, labels):
        i = self.ex.choose(labels)
        self.inputs[name] = ("choice", i)
        return i

    def assume(self, cond):
        self.ex.assume(cond)

    # ---- the deciding step
    def inconclusive(self, label, why=""):
        """the harness could not decide this obligation within its bounds: never a pass, never a violation"""
        self.msgs[label] = why
        self.results.append((label, "unknown", None))

    def record(self, name, value):
        """a JSON-able constant that belongs to the counterexample (e.g. a thread schedule)"""
        self.inputs[name] = ("const", value)

    def check(self, label, cond, msg="", decided_by_solver=False):
        if msg:
            self.msgs[label] = str(msg)[:300]
        if isinstance(cond, SymInt):
            cond = (cond != 0)
        if isinstance(cond, SymBool):
            if self.sample_smt is None:
                try:
                    neg = z3.Not(cond.t).sexpr()
                    self.sample_smt = {"check": label, "path_condition_tail": self.ex.solver.sexpr()[-700:],
                                       "negated_goal": neg[:900] + (" ..." if len(neg) > 900 else "")}
                except Exception:
                    self.sample_smt = {}
            st, model = self.ex.sat_with(z3.Not(cond.t))
            if st == "unsat":
                self.results.append((label, "discharged", "solver"))
                return True
            if st == "sat":
                inp = self._extract(model)
                if inp is None:
                    self.results.append((label, "unknown", None))
                    return True
                self.results.append((label, "violated", inp))
                # continue the path under the assumption that the check held, if possible
                try:
                    self.ex.assume(cond)
                except _ex.Infeasible:
                    raise _ex.PathEnd()
                return False
            self.results.append((label, "unknown", None))
            return True
        if cond:
            # concretely true on this path; the path itself exists only because the solver found it feasible
            self.results.append((label, "discharged", "solver" if (self.ex.decisions or decided_by_solver) else None))
            return True
        inp = self._extract(self.ex.model)
        self.results.append((label, "violated" if inp is not None else "unknown", inp))
        raise _ex.PathEnd()

    def _extract(self, model):
        if model is None:
            return None
        out = {}
        for name, d in self.inputs.items():
            if d[0] == "int":
                v = model.eval(d[1], model_completion=True) if model is not None else None
                out[name] = v.as_long() if v is not None else 0
            elif d[0] == "str":
                out[name] = "".join(chr(model.eval(t, model_completion=True).as_long()) for t in d[1])
            elif d[0] == "bytes":
                bs = bytearray()
                for t in d[1]:
                    v = model.eval(t, model_completion=True) if model is not None else None
                    bs.append(v.as_long() if v is not None else 0)
                out[name] = bs.hex()
            else:
                out[name] = d[1]
        return out

    def model_inputs(self):
        if self.ex.model is None:
            self.ex._refresh_model()
        return self._extract(self.ex.model)

    def oracle(self, v):
        """marks an expected value; the canary twin perturbs exactly one of them"""
        k = self._oracle_calls
        self._oracle_calls += 1
        if self.canary is not None and k == self.canary:
            if isinstance(v, (SymBytes, bytes, bytearray)):
                c = SymBytes.of(v)
                if not c:
                    return SymBytes([1])
                c[0] = c[0] ^ 1
                return SymBytes(c)
            if isinstance(v, bool):
                return not v
            if isinstance(v, SymBool):
                return ~v
            if isinstance(v, str):
                return v + "?"
            return v ^ 1
        return v

    def known(self, dev):
        return dev in self.deviations

    def oracle_struct(self, v):
        """like oracle() for a decoded structure: the canary perturbs its first integer leaf"""
        k = self._oracle_calls
        self._oracle_calls += 1
        if self.canary is not None and k == self.canary:
            return _perturb(v)[0]
        return v

    def select(self, table, idx):
        """table[idx] as one if-then-else term (finite function in the solver), no forking"""
        if not isinstance(idx, SymInt):
            return table[idx]
        w = max(max((abs(int(v)).bit_length() for v in table), default=1) + 2, 2)
        t = z3.BitVecVal(int(table[-1]), w)
        for i in range(len(table) - 2, -1, -1):
            t = z3.If(idx.t == z3.BitVecVal(i, idx.w), z3.BitVecVal(int(table[i]), w), t)
        return SymInt(t, w, min(table), max(table))

    def attempt(self, fn, *a, **k):
        try:
            return ("ok", fn(*a, **k))
        except Exception as e:  # PathAbort is a BaseException and passes through
            return ("exc", e)

    def concrete(self, v):
        return conc(v)

    def is_concrete(self, v):
        if isinstance(v, SymInt):
            return v.lo == v.hi
        if isinstance(v, SymBytes):
            return not v.is_symbolic()
        return not isinstance(v, SymBool)

    def note(self, k, v):
        self.notes[k] = v

    def ticks(self):
        return self.ex.ticks


def _perturb(v):
    if isinstance(v, dict):
        out = dict(v)
        for k in out:
            nv, done = _perturb(out[k])
            if done:
                out[k] = nv
                return out, True
        out["<canary>"] = 1
        return out, True
    if isinstance(v, list):
        out = list(v)
        for i in range(len(out)):
            nv, done = _perturb(out[i])
            if done:
                out[i] = nv
                return out, True
        return out + [0], True
    if isinstance(v, (SymInt, int)) and not isinstance(v, bool):
        return v ^ 1, True
    if isinstance(v, (SymBytes, bytes, bytearray)):
        c = SymBytes.of(v)
        if c:
            c[0] = c[0] ^ 1
            return SymBytes(c), True
        return SymBytes([1]), True
    return v, False


# ------------------------------------------------------------------ obligations
class Ob:
    def __init__(self, name, module, func, params=None, tick_budget=None, allow_opaque=False,
                 split=False, max_paths=200000, timeout_s=None, budget_is_violation=False,
                 canary=True, fork_cap=None, exc_ok=False, abstract_dicts=False):
        self.name = name
        self.module = module
        self.func = func
        self.params = params or {}
        self.tick_budget = tick_budget
        self.allow_opaque = allow_opaque
        self.split = split
        self.max_paths = max_paths
        self.timeout_s = timeout_s
        self.budget_is_violation = budget_is_violation
        self.canary = canary
        self.fork_cap = fork_cap
        self.abstract_dicts = abstract_dicts
        self.exc_ok = exc_ok  # an exception escaping the harness is acceptable (not a violation)


VIOLATION_GRACE_S = 8


def _raised_in_verif(e):
    tb = e.__traceback__
    last = None
    while tb is not None:
        last = tb
        tb = tb.tb_next
    fn = last.tb_frame.f_code.co_filename if last is not None else ""
    return fn.startswith(VERIF + os.sep) and os.sep + "stubs" + os.sep not in fn


def _run_ob(task):
    """worker: explore one obligation (or a set of root prefixes of it)"""
    ob, roots, deviations, canary, seed, solver_timeout_ms, path_cap = task
    t0 = time.time()
    out = {"name": ob.name, "paths": 0, "checks": {}, "violations": [], "unknown": [], "stats": None,
           "remaining": [], "error": None, "outcomes": {}, "sample": None, "truncated": False,
           "canary": canary, "deviations": sorted(deviations)}
    try:
        loader.install()
        mod = importlib.import_module(ob.module)
        fn = getattr(mod, ob.func)
        deadline = t0 + (ob.timeout_s or DEFAULT_OB_TIMEOUT[0])
        ex = _ex.Explorer(tick_budget=ob.tick_budget or 500000, seed=seed, timeout_ms=solver_timeout_ms,
                          fork_cap=ob.fork_cap or DEFAULT_FORK_CAP[0], max_paths=path_cap or ob.max_paths,
                          allow_opaque=ob.allow_opaque, deadline=deadline,
                          abstract_dicts=ob.abstract_dicts)
        ctx = SymCtx(ex, deviations, canary)

        def run():
            ctx._reset()
            return fn(ctx, **ob.params)

        seen_viol = set()
        grace = []
        for p in ex.explore(run, roots):
            out["paths"] += 1
            out["outcomes"][p.outcome] = out["outcomes"].get(p.outcome, 0) + 1
            for label, st, inp in ctx.results:
                d = out["checks"].setdefault(label, {"discharged": 0, "violated": 0, "unknown": 0, "solver": 0})
                d[st] += 1
                if st == "discharged" and inp == "solver":
                    d["solver"] = d.get("solver", 0) + 1
                if st == "violated" and label not in seen_viol:
                    seen_viol.add(label)
                    out["violations"].append({"label": label, "inputs": inp, "kind": "check",
                                              "msg": ctx.msgs.get(label, "")})
                if st == "unknown":
                    out["unknown"].append(label)
            ctx.results = []
            if p.outcome == "raise" and isinstance(p.value, (NameError, ImportError, SyntaxError)) and _raised_in_verif(p.value):
                # a bug of the harness itself (it would "reproduce" in the replay, which runs the same harness)
                raise p.value
            if p.outcome == "raise" and not isinstance(p.value, Skip) and not ob.exc_ok:
                label = "no-unexpected-exception"
                d = out["checks"].setdefault(label, {"discharged": 0, "violated": 0, "unknown": 0})
                d["violated"] += 1
                key = label + ":" + type(p.value).__name__
                if key not in seen_viol and canary is None:
                    seen_viol.add(key)
                    tb = "".join(traceback.format_exception(type(p.value), p.value, p.value.__traceback__)[-4:])
                    inp = ctx._extract(ex.model)
                    if inp is None:
                        out["unknown"].append(label)
                    else:
                      out["violations"].append({"label": label, "inputs": inp, "kind": "exception",
                                              "exc": type(p.value).__name__, "trace": tb[-1500:]})
            elif p.outcome == "budget":
                label = "terminates-within-budget"
                d = out["checks"].setdefault(label, {"discharged": 0, "violated": 0, "unknown": 0})
                d["violated"] += 1
                if label not in seen_viol:
                    seen_viol.add(label)
                    inp = ctx._extract(ex.model)
                    if inp is None:
                        out["unknown"].append(label)
                    else:
                        out["violations"].append({"label": label, "inputs": inp, "kind": "budget"})
            elif p.outcome == "forkcap":
                out["unknown"].append("fork-cap")
            elif p.outcome == "return":
                if ob.tick_budget is not None:
                    d = out["checks"].setdefault("terminates-within-budget",
                                                 {"discharged": 0, "violated": 0, "unknown": 0})
                    d["discharged"] += 1
            if out["violations"] and not grace:
                # a counterexample is in hand: a few more seconds for further labels, then stop this obligation
                grace.append(1)
                ex.deadline = min(ex.deadline, time.time() + VIOLATION_GRACE_S)
            if out["sample"] is None and ctx.inputs:
                try:
                    out["sample"] = {"smt2": ctx.sample_smt, "decisions": [list(x) for x in p.decisions[:12]],
                                     "inputs": {k: (v[0] if v[0] != "choice" else v[1]) for k, v in ctx.inputs.items()}}
                except Exception:
                    pass
        out["remaining"] = ex.remaining
        out["truncated"] = ex.truncated and not ob.split
        out["stats"] = ex.stats.as_dict()
        out["notes"] = ctx.notes
    except BaseException as e:  # harness bug
        out["error"] = "".join(traceback.format_exception(type(e), e, e.__traceback__))[-3000:]
    out["wall_s"] = round(time.time() - t0, 3)
    return out


def _merge(a, b):
    a["paths"] += b["paths"]
    for k, v in b["outcomes"].items():
        a["outcomes"][k] = a["outcomes"].get(k, 0) + v
    for lab, d in b["checks"].items():
        x = a["checks"].setdefault(lab, {"discharged": 0, "violated": 0, "unknown": 0, "solver": 0})
        for k in d:
            x[k] = x.get(k, 0) + d[k]
    have = {v["label"] for v in a["violations"]}
    for v in b["violations"]:
        if v["label"] not in have:
            a["violations"].append(v)
            have.add(v["label"])
    a["unknown"] += b["unknown"]
    if b["error"] and not a["error"]:
        a["error"] = b["error"]
    if a["stats"] is None:
        a["stats"] = b["stats"]
    elif b["stats"]:
        for k, v in b["stats"].items():
            if k == "max_ticks":
                a["stats"][k] = max(a["stats"][k], v)
            else:
                a["stats"][k] = round(a["stats"][k] + v, 3)
    a["truncated"] = a["truncated"] or b["truncated"]
    a["wall_s"] = round(a["wall_s"] + b["wall_s"], 3)
    if a.get("sample") is None:
        a["sample"] = b.get("sample")
    a.setdefault("notes", {}).update(b.get("notes") or {})
    return a


def _child(task, conn):
    try:
        r = _run_ob(task)
    except BaseException as e:  # noqa
        r = {"name": task[0].name, "paths": 0, "checks": {}, "violations": [], "unknown": [], "stats": None, "remaining": [],
             "error": "worker crashed: %r" % (e,), "outcomes": {}, "sample": None, "truncated": False, "wall_s": 0.0, "notes": {}}
    try:
        conn.send(r)
        conn.close()
    finally:
        os._exit(0)


def run_obligations(obs, deviations_for=None, canary_for=None, seed=0, workers=None,
                    solver_timeout_ms=20000, deadline=None):
    """run obligations in parallel: one freshly forked process per task (the parent stays single-threaded, so
    forking is safe and no state leaks from one obligation to the next); obligations flagged `split` hand
    their unexplored prefixes back and are re-distributed."""
    from multiprocessing import connection
    workers = workers or min(16, os.cpu_count() or 4)
    deviations_for = deviations_for or {}
    canary_for = canary_for or {}
    results = {}
    ctxm = mp.get_context("fork")
    order = list(obs)
    random.Random(seed).shuffle(order)
    queue = [(ob, None, 48 if ob.split else None) for ob in order]
    queue.reverse()
    active = {}

    def account(ob, r):
        if ob.name in results:
            _merge(results[ob.name], r)
        else:
            results[ob.name] = r
        rem = r.pop("remaining", [])
        if rem:
            spent = results[ob.name].get("wall_s", 0)
            if (deadline and time.time() > deadline) or not ob.split or results[ob.name]["violations"] \
                    or spent > workers * (ob.timeout_s or DEFAULT_OB_TIMEOUT[0]):
                # no re-distribution after a counterexample, nor beyond the obligation's total budget
                results[ob.name]["truncated"] = True
            else:
                n = max(1, min(len(rem), workers * 2))
                for ch in [rem[i::n] for i in range(n)]:
                    if ch:
                        queue.insert(0, (ob, ch, 400))   # behind everything not started yet (the queue is popped from its end)

    while queue or active:
        while queue and len(active) < workers:
            ob, roots, cap = queue.pop()
            if deadline and time.time() > deadline:
                # the check's overall budget is spent: what was not explored is reported as such, never as a pass
                account(ob, {"name": ob.name, "paths": 0, "checks": {}, "violations": [], "unknown": ["check-deadline"],
                             "stats": None, "remaining": [], "error": None, "outcomes": {}, "sample": None,
                             "truncated": True, "wall_s": 0.0, "notes": {}})
                continue
            task = (ob, roots, deviations_for.get(ob.name, ()), canary_for.get(ob.name), seed, solver_timeout_ms, cap)
            rx, tx = ctxm.Pipe(duplex=False)
            p = ctxm.Process(target=_child, args=(task, tx))
            p.start()
            tx.close()
            active[rx] = (p, ob, time.time())
        ready = connection.wait(list(active), timeout=1.0)
        for rx in ready:
            p, ob, t0 = active.pop(rx)
            try:
                r = rx.recv()
            except (EOFError, OSError):
                r = {"name": ob.name, "paths": 0, "checks": {}, "violations": [], "unknown": [], "stats": None, "remaining": [],
                     "error": "worker died without a result (exit code %s)" % p.exitcode, "outcomes": {}, "sample": None,
                     "truncated": False, "wall_s": round(time.time() - t0, 3), "notes": {}}
            rx.close()
            p.join(5)
            account(ob, r)
        # hard limit: a task that ignores its own deadline (e.g. a single solver call that never returns)
        now = time.time()
        for rx, (p, ob, t0) in list(active.items()):
            limit = 2 * (ob.timeout_s or DEFAULT_OB_TIMEOUT[0]) + 120
            if now - t0 > limit:
                p.kill()
                p.join(5)
                active.pop(rx)
                rx.close()
                account(ob, {"name": ob.name, "paths": 0, "checks": {}, "violations": [], "unknown": ["hard-timeout"], "stats": None,
                             "remaining": [], "error": None, "outcomes": {}, "sample": None, "truncated": True,
                             "wall_s": round(now - t0, 3), "notes": {}})
    return results


# ------------------------------------------------------------------ replay
def write_replay(prop, ob, viol, tier, seed, deviations=()):
    os.makedirs(os.path.join(VERIF, "replays"), exist_ok=True)
    safe = "".join(c if c.isalnum() or c in "-_." else "_" for c in "%s-%s-%s" % (prop, ob.name, viol["label"]))[:150]
    path = os.path.join(VERIF, "replays", safe + ".json")
    doc = {"property": prop, "obligation": ob.name, "module": ob.module, "func": ob.func, "params": ob.params,
           "label": viol["label"], "kind": viol["kind"], "inputs": viol["inputs"], "exc": viol.get("exc"),
           "trace": viol.get("trace"), "tier": tier, "seed": seed, "deviations": sorted(deviations),
           "tick_budget": ob.tick_budget, "repo_head": _repo_head()}
    with open(path, "w") as f:
        json.dump(doc, f, indent=1, sort_keys=True)
    return path


def _repo_head():
    try:
        return subprocess.run(["git", "-C", loader.REPO, "rev-parse", "--short", "HEAD"], capture_output=True,
                              text=True, timeout=10).stdout.strip()
    except Exception:
        return "?"


def confirm_replay(path, timeout=120):
    """replay against the uninstrumented library in a plain /venv/bin/python process.
    returns 'reproduced' | 'not-reproduced' | 'error:<..>'"""
    try:
        r = subprocess.run(["/venv/bin/python", os.path.join(VERIF, "bin", "replay.py"), path],
                           capture_output=True, text=True, timeout=timeout,
                           env=dict(os.environ, PYTHONPATH="", VERIF_REPO=loader.REPO))
    except subprocess.TimeoutExpired:
        return "error:timeout"
    if r.returncode == 1:
        return "reproduced"
    if r.returncode == 0:
        return "not-reproduced"
    return "error:rc=%d %s" % (r.returncode, (r.stdout + r.stderr)[-400:])
