"""Import hook: loads every module under /repo/pyscsi from the *current working
tree* through an AST instrumentation (calls, subscripts, membership tests,
%-formatting, loop/function ticks) so that the real code can run on symx proxies.
No model of the library is written by hand -- the encoding is regenerated from
the source on every run.
"""
import ast
import hashlib
import importlib.abc
import importlib.machinery
import importlib.util
import os
import sys

REPO = os.environ.get("VERIF_REPO", "/repo")
PKG = "pyscsi"

SOURCES = {}  # path -> sha256 of the source that was instrumented
COUNTS = {"calls": 0, "subscripts": 0, "contains": 0, "mods": 0, "ticks": 0}

TRACE = False  # trace mode (C09 threads): also route attribute loads/stores and item stores through the tracer

_TRACE_HELPERS = "from symx.trace import ga as _sx_ga, sa as _sx_sa, si as _sx_si, it as _sx_it"
_HELPERS = "from symx.rt import call as _sx_call, getitem as _sx_getitem, contains as _sx_contains, mod as _sx_mod, tick as _sx_tick"


class _Tx(ast.NodeTransformer):
    def visit_Call(self, node):
        self.generic_visit(node)
        if isinstance(node.func, ast.Name) and node.func.id in ("super", "_sx_call", "_sx_getitem", "_sx_ga", "_sx_sa", "_sx_si", "_sx_it",
                                                               "_sx_contains", "_sx_mod", "_sx_tick",
                                                               "locals", "globals", "vars"):
            return node
        COUNTS["calls"] += 1
        return ast.copy_location(
            ast.Call(func=ast.Name(id="_sx_call", ctx=ast.Load()),
                     args=[node.func] + node.args, keywords=node.keywords), node)

    def visit_Subscript(self, node):
        self.generic_visit(node)
        if not isinstance(node.ctx, ast.Load):
            return node
        COUNTS["subscripts"] += 1
        return ast.copy_location(
            ast.Call(func=ast.Name(id="_sx_getitem", ctx=ast.Load()),
                     args=[node.value, node.slice], keywords=[]), node)

    def visit_Compare(self, node):
        self.generic_visit(node)
        if len(node.ops) == 1 and isinstance(node.ops[0], (ast.In, ast.NotIn)):
            COUNTS["contains"] += 1
            return ast.copy_location(
                ast.Call(func=ast.Name(id="_sx_contains", ctx=ast.Load()),
                         args=[node.comparators[0], node.left,
                               ast.Constant(value=isinstance(node.ops[0], ast.NotIn))],
                         keywords=[]), node)
        return node

    def visit_BinOp(self, node):
        self.generic_visit(node)
        if isinstance(node.op, ast.Mod):
            COUNTS["mods"] += 1
            return ast.copy_location(
                ast.Call(func=ast.Name(id="_sx_mod", ctx=ast.Load()),
                         args=[node.left, node.right], keywords=[]), node)
        return node

    def _tick(self, node):
        COUNTS["ticks"] += 1
        t = ast.Expr(value=ast.Call(func=ast.Name(id="_sx_tick", ctx=ast.Load()), args=[], keywords=[]))
        return ast.copy_location(t, node)

    def _body_with_tick(self, node):
        body = node.body
        k = 0
        if body and isinstance(body[0], ast.Expr) and isinstance(getattr(body[0], "value", None), ast.Constant) \
                and isinstance(body[0].value.value, str):
            k = 1
        node.body = body[:k] + [self._tick(body[k] if len(body) > k else node)] + body[k:]

    def visit_FunctionDef(self, node):
        self.generic_visit(node)
        self._body_with_tick(node)
        return node

    visit_AsyncFunctionDef = visit_FunctionDef

    def visit_While(self, node):
        self.generic_visit(node)
        node.body = [self._tick(node.body[0])] + node.body
        return node

    def visit_For(self, node):
        self.generic_visit(node)
        node.body = [self._tick(node.body[0])] + node.body
        return node

    # subscripts on the left of augmented assignments (a[i] ^= v) stay Store/Load pairs
    # handled by python itself: SymBytes implements __getitem__/__setitem__.

    def visit_AnnAssign(self, node):
        # do not rewrite annotations
        if node.value is not None:
            node.value = self.visit(node.value)
        node.target = self.visit(node.target)
        return node

    def visit_arguments(self, node):
        node.defaults = [self.visit(d) for d in node.defaults]
        node.kw_defaults = [self.visit(d) if d is not None else None for d in node.kw_defaults]
        return node


class _TraceTx(ast.NodeTransformer):
    """shared-memory access tracing: o.a -> _sx_ga(o,'a'); o.a = v -> _sx_sa(o,'a',v); o[i] = v -> _sx_si(o,i,v);
    augmented assignments are expanded.  Runs before the main transformer."""

    def __init__(self):
        self.cls = []

    def visit_ClassDef(self, node):
        self.cls.append(node.name)
        self.generic_visit(node)
        self.cls.pop()
        return node

    def _mangle(self, attr):
        if attr.startswith("__") and not attr.endswith("__") and self.cls:
            return "_" + self.cls[-1].lstrip("_") + attr
        return attr

    def visit_Attribute(self, node):
        self.generic_visit(node)
        if isinstance(node.ctx, ast.Load):
            return ast.copy_location(ast.Call(func=ast.Name(id="_sx_ga", ctx=ast.Load()),
                                              args=[node.value, ast.Constant(value=self._mangle(node.attr))], keywords=[]), node)
        return node

    def _store(self, target, value, node):
        if isinstance(target, ast.Attribute):
            return ast.copy_location(ast.Expr(value=ast.Call(
                func=ast.Name(id="_sx_sa", ctx=ast.Load()),
                args=[target.value, ast.Constant(value=self._mangle(target.attr)), value], keywords=[])), node)
        if isinstance(target, ast.Subscript):
            return ast.copy_location(ast.Expr(value=ast.Call(
                func=ast.Name(id="_sx_si", ctx=ast.Load()), args=[target.value, target.slice, value], keywords=[])), node)
        return None

    def _wrap_it(self, expr):
        return ast.copy_location(ast.Call(func=ast.Name(id="_sx_it", ctx=ast.Load()), args=[expr], keywords=[]), expr)

    def visit_For(self, node):
        self.generic_visit(node)
        node.iter = self._wrap_it(node.iter)
        return node

    def visit_Assign(self, node):
        node.value = self.visit(node.value)
        if len(node.targets) > 1:
            # a = b[k] = v  ->  tmp = v; a = tmp; b[k] = tmp   (each store then goes through its helper)
            self.tmp = getattr(self, "tmp", 0) + 1
            name = "_sx_tmp%d" % self.tmp
            out = [ast.copy_location(ast.Assign(targets=[ast.Name(id=name, ctx=ast.Store())], value=node.value), node)]
            for t in node.targets:
                one = ast.copy_location(ast.Assign(targets=[t], value=ast.Name(id=name, ctx=ast.Load())), node)
                r = self.visit_Assign(one)
                out.extend(r if isinstance(r, list) else [r])
            return out
        if isinstance(node.targets[0], (ast.Tuple, ast.List)):
            node.value = self._wrap_it(node.value)  # unpacking iterates over the value
        if isinstance(node.targets[0], (ast.Attribute, ast.Subscript)):
            t = node.targets[0]
            t.value = self.visit(t.value)
            if isinstance(t, ast.Subscript):
                t.slice = self.visit(t.slice)
            r = self._store(t, node.value, node)
            if r is not None:
                return r
        node.targets = [self.visit(t) for t in node.targets]
        return node

    def visit_AugAssign(self, node):
        node.value = self.visit(node.value)
        t = node.target
        if isinstance(t, (ast.Attribute, ast.Subscript)):
            import copy
            t.value = self.visit(t.value)
            if isinstance(t, ast.Subscript):
                t.slice = self.visit(t.slice)
            load = copy.deepcopy(t)
            load.ctx = ast.Load()
            if isinstance(load, ast.Attribute):
                cur = ast.Call(func=ast.Name(id="_sx_ga", ctx=ast.Load()),
                               args=[load.value, ast.Constant(value=self._mangle(load.attr))], keywords=[])
            else:
                cur = load
            newv = ast.BinOp(left=cur, op=node.op, right=node.value)
            r = self._store(t, newv, node)
            if r is not None:
                return r
        return node

    def visit_AnnAssign(self, node):
        if node.value is not None:
            node.value = self.visit(node.value)
        return node

    def visit_Delete(self, node):
        return node


def instrument(source, path):
    tree = ast.parse(source, path)
    if TRACE:
        tree = _TraceTx().visit(tree)
        ast.fix_missing_locations(tree)
    tree = _Tx().visit(tree)
    # helper import goes after the docstring and any __future__ imports
    k = 0
    body = tree.body
    if body and isinstance(body[0], ast.Expr) and isinstance(getattr(body[0], "value", None), ast.Constant) \
            and isinstance(body[0].value.value, str):
        k = 1
    while k < len(body) and isinstance(body[k], ast.ImportFrom) and body[k].module == "__future__":
        k += 1
    imp = ast.parse(_HELPERS).body + (ast.parse(_TRACE_HELPERS).body if TRACE else [])
    tree.body = body[:k] + imp + body[k:]
    ast.fix_missing_locations(tree)
    return tree


class _Loader(importlib.machinery.SourceFileLoader):
    def exec_module(self, module):
        # module bodies run concretely even when the import happens in the middle of an exploration
        # (module-level bytearray(...) etc. must be real objects, shared by every later path)
        from . import explore as _ex
        saved, _ex._CUR = _ex._CUR, None
        try:
            return super().exec_module(module)
        finally:
            _ex._CUR = saved

    def get_code(self, fullname):
        path = self.get_filename(fullname)
        data = self.get_data(path)
        SOURCES[path] = hashlib.sha256(data).hexdigest()
        return compile(instrument(data, path), path, "exec", dont_inherit=True)


class _Finder(importlib.abc.MetaPathFinder):
    def find_spec(self, fullname, path, target=None):
        if fullname != PKG and not fullname.startswith(PKG + "."):
            return None
        rel = fullname.split(".")
        base = os.path.join(REPO, *rel)
        if os.path.isdir(base) and os.path.exists(os.path.join(base, "__init__.py")):
            fn = os.path.join(base, "__init__.py")
            return importlib.util.spec_from_file_location(
                fullname, fn, loader=_Loader(fullname, fn), submodule_search_locations=[base])
        fn = base + ".py"
        if os.path.exists(fn):
            return importlib.util.spec_from_file_location(fullname, fn, loader=_Loader(fullname, fn))
        return None


_installed = False


def install(repo=None):
    """route imports of pyscsi.* through the instrumenting loader (idempotent)"""
    global _installed, REPO
    if repo:
        REPO = repo
    if _installed:
        return
    sys.dont_write_bytecode = True
    for m in [m for m in sys.modules if m == PKG or m.startswith(PKG + ".")]:
        del sys.modules[m]
    sys.meta_path.insert(0, _Finder())
    _installed = True


def plain(repo=None):
    """make the *uninstrumented* working tree importable (concrete replays)"""
    r = repo or REPO
    if r not in sys.path:
        sys.path.insert(0, r)
    sys.dont_write_bytecode = True


def source_digest():
    h = hashlib.sha256()
    for p in sorted(SOURCES):
        h.update(p.encode())
        h.update(SOURCES[p].encode())
    return h.hexdigest()[:16]
