"""Path exploration by re-execution with a recorded decision prefix (DART/CrossHair
scheme) over one z3 solver per path.

Decisions are recorded as tuples so that a replayed prefix stays aligned even if
the solver returns a different model on the next run:
    ('b', taken)           binary branch on a condition
    ('c', value, taken)    value-fork: "term == value" (taken) / "term != value"
    ('k', index)           n-ary choice / slice clamp (index of the option taken)
Alternatives are pushed *unchecked*; the feasibility of a popped prefix is checked
once, when its last decision is replayed (one solver call per explored path).
"""
import time

import z3

_CUR = None


class PathAbort(BaseException):
    """internal control flow; deliberately not an Exception so that the repo's
    `except Exception` handlers cannot swallow it"""


class Infeasible(PathAbort):
    pass


class BudgetExceeded(PathAbort):
    pass


class PathEnd(PathAbort):
    """the harness ends this path deliberately (results so far are kept)"""


class ForkCap(PathAbort):
    pass


class NoExplorer(RuntimeError):
    pass


def cur():
    if _CUR is None:
        raise NoExplorer("symbolic value used outside an exploration")
    return _CUR


def active():
    return _CUR is not None


class Path:
    def __init__(self, decisions, outcome, value, stats):
        self.decisions = decisions
        self.outcome = outcome  # 'return' | 'raise' | 'budget' | 'forkcap'
        self.value = value
        self.stats = stats


class Stats:
    def __init__(self):
        self.solver_calls = 0
        self.solver_s = 0.0
        self.paths = 0
        self.infeasible = 0
        self.value_forks = 0
        self.max_ticks = 0
        self.unknown = 0

    def add(self, o):
        for k in ("solver_calls", "solver_s", "paths", "infeasible", "value_forks", "unknown"):
            setattr(self, k, getattr(self, k) + getattr(o, k))
        self.max_ticks = max(self.max_ticks, o.max_ticks)

    def as_dict(self):
        return {k: (round(v, 3) if isinstance(v, float) else v) for k, v in self.__dict__.items()}


class Explorer:
    def __init__(self, tick_budget=None, seed=0, timeout_ms=20000, fork_cap=4096,
                 max_paths=200000, allow_opaque=False, deadline=None, abstract_dicts=False):
        self.tick_budget = tick_budget
        self.seed = seed
        self.timeout_ms = timeout_ms
        self.fork_cap = fork_cap
        self.max_paths = max_paths
        self.allow_opaque = allow_opaque
        self.abstract_dicts = abstract_dicts
        self.deadline = deadline
        from . import isolate as _iso
        self.isolate = _iso.Snapshot()
        self.stats = Stats()
        self.assumptions = []
        self.truncated = False
        # per-path state
        self.solver = None
        self.prefix = []
        self.pos = 0
        self.decisions = []
        self.model = None
        self.ticks = 0
        self.pending = []
        self.known = {}
        self.on_path_start = None

    # ------------------------------------------------------------------ solver
    def _check(self, *extra):
        t0 = time.time()
        r = self.solver.check(*extra)
        self.stats.solver_calls += 1
        self.stats.solver_s += time.time() - t0
        if r == z3.unknown:
            self.stats.unknown += 1
        return r

    def _new_solver(self):
        s = z3.Solver()
        s.set("timeout", self.timeout_ms)
        s.set("random_seed", self.seed)
        return s

    def _refresh_model(self):
        r = self._check()
        if r == z3.sat:
            self.model = self.solver.model()
            return True
        if r == z3.unsat:
            raise Infeasible()
        # unknown: treat as feasible without a model (sound for verification: we explore more)
        self.model = None
        return True

    def _holds_in_model(self, cond):
        if self.model is None:
            return None
        v = self.model.eval(cond, model_completion=True)
        if z3.is_true(v):
            return True
        if z3.is_false(v):
            return False
        return None

    def _assert(self, cond, agrees):
        self.solver.add(cond)
        if not agrees:
            self._refresh_model()

    # --------------------------------------------------------------- decisions
    def _replaying(self):
        return self.pos < len(self.prefix)

    def _next(self, kind):
        d = self.prefix[self.pos]
        self.pos += 1
        if d[0] != kind:
            raise RuntimeError("replay misaligned: expected %r got %r at %d" % (kind, d, self.pos - 1))
        self.decisions.append(d)
        return d, self.pos == len(self.prefix)

    def assume(self, cond):
        """add a constraint to the path (harness assumptions)"""
        if isinstance(cond, bool):
            if not cond:
                raise Infeasible()
            return
        t = cond.t if hasattr(cond, "t") else cond
        if self._replaying():
            self.solver.add(t)
            return
        h = self._holds_in_model(t)
        self._assert(t, h is True)

    def _feasible(self, cond):
        self.solver.push()
        self.solver.add(cond)
        r = self._check()
        self.solver.pop()
        return r != z3.unsat

    def branch(self, cond):
        cid = cond.get_id()
        k = self.known.get(cid)
        if k is not None:
            return k[1]  # (the AST is kept alive in the cache so that z3 cannot reuse its id)
        if self._replaying():
            d, last = self._next('b')
            taken = d[1]
            self.solver.add(cond if taken else z3.Not(cond))
            if last:
                self._refresh_model()
            self.known[cid] = (cond, taken)
            return taken
        h = self._holds_in_model(cond)
        if h is None:
            h = self._feasible(cond)
        taken = bool(h)
        other = z3.Not(cond) if taken else cond
        if self._feasible(other):
            self.pending.append(self.decisions + [('b', not taken)])
            self.solver.add(cond if taken else z3.Not(cond))
        # forced decisions are recorded too (no alternative pushed) so that replayed prefixes stay aligned
        self.decisions.append(('b', taken))
        self.known[cid] = (cond, taken)
        if self.model is None:
            self._refresh_model()
        return taken

    def concretize(self, x):
        """value-fork on a SymInt; returns a python int"""
        if x.lo == x.hi:
            return x.lo
        while True:
            if self._replaying():
                d, last = self._next('c')
                _, v, taken = d
                c = x.t == z3.BitVecVal(v, x.w)
                if not taken:
                    c = z3.Not(c)
                self.solver.add(c)
                if last:
                    self._refresh_model()
                if taken:
                    return v
                continue
            self.stats.value_forks += 1
            # the cap bounds how many values have been excluded one by one along *this* path (enumeration of a wide
            # variable), not the number of small-domain forks of the whole obligation; a generous global bound remains
            excluded = sum(1 for d in self.decisions if d[0] == 'c' and not d[2])
            if excluded > self.fork_cap or self.stats.value_forks > 200 * self.fork_cap:
                raise ForkCap()
            if self.model is None:
                self._refresh_model()
            if self.model is None:
                raise ForkCap()
            v = None
            # boundary candidates first (all-ones, alternating patterns, values around 2^53): where the code under
            # test forces enumeration (floats, range(n), hashing) the interesting inputs are at the edges
            self._cand_i = getattr(self, "_cand_i", 0)
            if x.hi - x.lo > 64:
                bits = max(x.hi.bit_length(), 1)
                cands = [x.hi, int("55" * 16, 16) & ((1 << bits) - 1), (1 << 53) + 1, x.hi - 1, x.lo, (1 << (bits - 1))]
                # ... and the byte boundaries (2^8k, 2^8k - 1, 2^8k + 1): where float rounding, byte counts computed from
                # logarithms or bit lengths, and sign bits go wrong
                # small magnitudes on both sides of zero (negative indices, off-by-one around the origin)
                cands += [-1, 0, 1, -2, 2, -3, 3, -4, 4, -5, 5]
                for k in range(8, bits + 1, 8):
                    cands += [1 << k, (1 << k) - 1, (1 << k) + 1]
            else:
                cands = []
            if x.hi - x.lo >= self.fork_cap:
                # a domain too wide to enumerate: the boundary candidates and a handful of solver-chosen values, then
                # this path is inconclusive (arbitrary further values of a 64-bit variable add nothing)
                site = 0
                for d in reversed(self.decisions):
                    if d[0] == 'c' and not d[2]:
                        site += 1
                    else:
                        break
                if site >= len(cands) + 8:
                    raise ForkCap()
            if self._cand_i < len(cands):
                while self._cand_i < len(cands) and v is None:
                    c = cands[self._cand_i]
                    self._cand_i += 1
                    if x.lo <= c <= x.hi and self._feasible(x.t == z3.BitVecVal(c, x.w)):
                        v = c
            if v is None:
                v = self.model.eval(x.t, model_completion=True).as_signed_long()
            eq = x.t == z3.BitVecVal(v, x.w)
            if not self._feasible(z3.Not(eq)):
                self.decisions.append(('c', v, True))  # forced value: recorded, no alternative
                return v
            self.pending.append(self.decisions + [('c', v, False)])
            self.decisions.append(('c', v, True))
            self.solver.add(eq)
            # the model may assign other values to x if x was unconstrained & not evaluated with completion
            self._refresh_model()
            return v

    def _kary(self, conds):
        """conds: list of z3 Bool (mutually exclusive, exhaustive).  returns index."""
        if self._replaying():
            d, last = self._next('k')
            i = d[1]
            if conds[i] is not None:
                self.solver.add(conds[i])
            if last:
                self._refresh_model()
            return i
        if self.model is None:
            self._refresh_model()
        feas = []
        pick = None
        for i, c in enumerate(conds):
            if c is None:
                feas.append(i)
                if pick is None:
                    pick = i
            elif pick is None and self._holds_in_model(c):
                pick = i
                feas.append(i)
            elif self._feasible(c):
                feas.append(i)
        if not feas:
            raise Infeasible()
        if pick is None:
            pick = feas[0]
        if len(feas) == 1:
            # forced: still record, so that replays stay aligned without re-checking
            self.decisions.append(('k', pick))
        else:
            for i in feas:
                if i != pick:
                    self.pending.append(self.decisions + [('k', i)])
            self.decisions.append(('k', pick))
        if conds[pick] is not None:
            self.solver.add(conds[pick])
            if self.model is None or not self._holds_in_model(conds[pick]):
                self._refresh_model()
        return pick

    def choose(self, labels):
        """pure nondeterministic choice (environment stubs)"""
        return self._kary([None] * len(labels))

    def clamp(self, b, n):
        """min(b, n) for a SymInt b >= 0 and concrete n, as one n-ary fork"""
        hi = min(n, b.hi)
        lo = max(0, b.lo)
        if lo >= hi:
            return hi
        conds = []
        for k in range(lo, hi):
            conds.append(b.t == z3.BitVecVal(k, b.w))
        conds.append(b.t >= z3.BitVecVal(hi, b.w)) if _fits(hi, b.w) else conds.append(z3.BoolVal(False))
        return lo + self._kary(conds)

    def tick(self, n=1):
        self.ticks += n
        if self.tick_budget is not None and self.ticks > self.tick_budget:
            raise BudgetExceeded()

    # -------------------------------------------------------------- exploration
    def explore(self, fn, roots=None):
        """run fn() once per feasible path; yields Path objects.  fn receives no
        arguments; it creates its inputs through the harness context."""
        global _CUR
        work = [list(r) for r in (roots or [[]])]
        while work:
            if self.stats.paths >= self.max_paths or (self.deadline and time.time() > self.deadline):
                self.truncated = True
                break
            self.prefix = work.pop()
            self.pos = 0
            self.decisions = []
            self.pending = []
            self.ticks = 0
            self.model = None
            self.known = {}
            self._cand_i = 0
            self.solver = self._new_solver()
            for a in self.assumptions:
                self.solver.add(a)
            if self.isolate is not None:
                # module-level state of the library under test is put back before every path (symx/isolate.py)
                self.isolate.extend()
                self.isolate.restore()
            prev, _CUR = _CUR, self
            outcome, value = None, None
            try:
                if not self.prefix:
                    self._refresh_model()
                if self.on_path_start:
                    self.on_path_start()
                try:
                    value = fn()
                    outcome = 'return'
                except PathAbort:
                    raise
                except Exception as e:  # the code under test raised
                    value = e
                    outcome = 'raise'
                if self.pos < len(self.prefix):
                    raise RuntimeError("replay did not consume prefix")
            except Infeasible:
                self.stats.infeasible += 1
                outcome = None
            except PathEnd:
                outcome = 'stopped'
            except BudgetExceeded:
                outcome = 'budget'
            except ForkCap:
                outcome = 'forkcap'
            finally:
                _CUR = prev
            self.stats.max_ticks = max(self.stats.max_ticks, self.ticks)
            work.extend(self.pending)  # alternatives stay valid even if this path died later
            if outcome is None:
                continue
            self.stats.paths += 1
            yield Path(list(self.decisions), outcome, value, None)
        self.remaining = work

    # used inside a path by harness contexts ------------------------------------
    def sat_with(self, extra):
        """is pc /\\ extra satisfiable?  returns ('sat', model) | ('unsat', None) | ('unknown', None)"""
        self.solver.push()
        try:
            self.solver.add(extra)
            r = self._check()
            if r == z3.sat:
                return 'sat', self.solver.model()
            if r == z3.unsat:
                return 'unsat', None
            return 'unknown', None
        finally:
            self.solver.pop()


def _fits(v, w):
    return -(1 << (w - 1)) <= v <= (1 << (w - 1)) - 1
