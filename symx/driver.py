"""Per-property driver: runs the obligations, the canary twins, confirms every
counterexample by concrete replay, applies the known-findings protocol, writes
/verif/evidence/<id>.json and returns the exit code.

exit 0  no unlisted violation (KNOWN-FINDING / INCONCLUSIVE lines allowed)
exit 1  at least one replay-confirmed violation that known_findings.json does not list
exit 3  harness error (model did not reproduce, canary blind, harness crashed, vacuous obligation)
"""
import json
import os
import re
import sys
import time

from . import harness as H
from . import loader

VERIF = H.VERIF


def load_findings(prop):
    p = os.path.join(VERIF, "known_findings.json")
    if not os.path.exists(p):
        return []
    doc = json.load(open(p))
    return [f for f in doc.get("findings", []) if f.get("property") == prop]


def _match(f, obname, label):
    return re.fullmatch(f["obligation"], obname) is not None and re.fullmatch(f.get("label", ".*"), label) is not None


def run_property(prop, tier, seed, obs, info, workers=None, solver_timeout_ms=None, canary_count=None):
    t0 = time.time()
    solver_timeout_ms = solver_timeout_ms or (20000 if tier == "quick" else 120000)
    H.DEFAULT_OB_TIMEOUT[0] = 90 if tier == "quick" else 3000
    H.DEFAULT_FORK_CAP[0] = 256 if tier == "quick" else 2048
    findings = load_findings(prop)
    known = [f for f in findings if f.get("status") == "known"]
    lines = []
    exit_code = 0
    harness_errors = []

    # overall budget of the exploration phase (on the unchanged tree every check ends far below it); obligations not
    # explored by then are reported inconclusive
    check_deadline = time.time() + (900 if tier == "quick" else 4 * 3600)
    res = H.run_obligations(obs, seed=seed, workers=workers, solver_timeout_ms=solver_timeout_ms, deadline=check_deadline)
    obmap = {o.name: o for o in obs}
    try:
        os.makedirs(os.path.join(VERIF, ".cache"), exist_ok=True)
        with open(os.path.join(VERIF, ".cache", "last-%s-%s.json" % (prop, tier)), "w") as f:
            json.dump(res, f, indent=1, default=str)
    except Exception:
        pass

    # ---- canary twins: perturb one oracle value; the obligation must then FAIL
    canary_obs = [o for o in obs if o.canary and not res[o.name]["error"] and not res[o.name]["violations"]]
    if canary_count is not None:
        import random
        rnd = random.Random(seed)
        canary_obs = sorted(canary_obs, key=lambda o: o.name)
        rnd.shuffle(canary_obs)
        canary_obs = canary_obs[:canary_count]
    cres = {}
    if canary_obs:
        cres = H.run_obligations(canary_obs, canary_for={o.name: 0 for o in canary_obs}, seed=seed,
                                 workers=workers, solver_timeout_ms=solver_timeout_ms)
    canary_seen = 0
    for o in canary_obs:
        r = cres[o.name]
        if r["error"]:
            harness_errors.append("canary run of %s crashed: %s" % (o.name, r["error"][-300:]))
        elif not r["violations"]:
            harness_errors.append("canary blind: %s does not notice a perturbed oracle value" % o.name)
        else:
            canary_seen += 1

    # ---- violations -> replay -> known findings
    n_viol = 0
    printed_known = {}
    inconclusive = []
    samples = []
    tot = {"obligations": 0, "discharged": 0, "solver_decided": 0, "paths": 0, "solver_calls": 0, "solver_s": 0.0,
           "value_forks": 0, "violated": 0, "unknown": 0, "max_ticks": 0}
    vacuous = []
    for o in obs:
        r = res[o.name]
        if r["error"]:
            harness_errors.append("obligation %s crashed the harness: %s" % (o.name, r["error"][-600:]))
            continue
        nchecks = sum(d["discharged"] + d["violated"] + d["unknown"] for d in r["checks"].values())
        if nchecks == 0 and r["outcomes"].get("raise", 0) == r["paths"] and r["paths"] > 0:
            pass  # all paths Skip
        elif nchecks == 0:
            vacuous.append(o.name)
        if r["truncated"]:
            inconclusive.append("%s: exploration truncated (path/time cap)" % o.name)
        for lab in sorted(set(r["unknown"])):
            inconclusive.append("%s: %s (solver unknown / fork cap)" % (o.name, lab))
        viols = r["violations"]
        unmatched, matched = [], {}
        for v in viols:
            path = H.write_replay(prop, o, v, tier, seed)
            st = H.confirm_replay(path)
            v["replay"] = path
            v["replay_status"] = st
            if st != "reproduced":
                harness_errors.append("counterexample for %s/%s did not reproduce on the real code (%s): %s"
                                      % (o.name, v["label"], st, path))
                continue
            fs = [f for f in known if _match(f, o.name, v["label"])]
            if fs:
                for f in fs:
                    matched[f["id"]] = f
            else:
                unmatched.append(v)
        if matched:
            devs = sorted({f["deviation"] for f in matched.values() if f.get("deviation")})
            rr = H.run_obligations([o], deviations_for={o.name: devs}, seed=seed, workers=1,
                                   solver_timeout_ms=solver_timeout_ms)[o.name]
            if rr["error"]:
                harness_errors.append("re-run of %s with pinned deviations crashed: %s" % (o.name, rr["error"][-400:]))
            for v in rr["violations"]:
                path = H.write_replay(prop, o, v, tier, seed, devs)
                st = H.confirm_replay(path)
                v["replay"] = path
                if st == "reproduced":
                    unmatched.append(v)
                else:
                    harness_errors.append("counterexample (with pinned deviations) for %s/%s did not reproduce (%s)"
                                          % (o.name, v["label"], st))
            # account the re-run as the obligation's result
            r_checks = rr["checks"]
            for f in matched.values():
                printed_known.setdefault(f["id"], f)
            r = dict(r)
            r["checks"] = r_checks
            r["pinned"] = devs
        for v in unmatched:
            n_viol += 1
            exit_code = 1
            lines.append("VIOLATION property=%s replay=%s" % (prop, v["replay"]))
            lines.append("  obligation=%s check=%s inputs=%s" % (o.name, v["label"], json.dumps(v["inputs"])[:400]))
        for lab, d in r["checks"].items():
            tot["obligations"] += 1
            if d["violated"] == 0 and d["unknown"] == 0 and d["discharged"] > 0:
                tot["discharged"] += 1
                if d.get("solver", 0) > 0:
                    tot["solver_decided"] += 1
            elif d["violated"]:
                tot["violated"] += 1
            else:
                tot["unknown"] += 1
        st = r["stats"] or {}
        tot["paths"] += r["paths"]
        tot["solver_calls"] += st.get("solver_calls", 0)
        tot["solver_s"] += st.get("solver_s", 0.0)
        tot["value_forks"] += st.get("value_forks", 0)
        tot["max_ticks"] = max(tot["max_ticks"], st.get("max_ticks", 0))
        if len(samples) < 6 and r.get("sample"):
            samples.append({"obligation": o.name, "harness": "%s.%s" % (o.module, o.func), "params": _short(o.params),
                            "symbolic_inputs": r["sample"]["inputs"], "first_decisions": r["sample"]["decisions"], "one_query_smt2": r["sample"].get("smt2"),
                            "paths": r["paths"], "checks": {k: v for k, v in list(r["checks"].items())[:8]}})

    for fid, f in sorted(printed_known.items()):
        lines.append("KNOWN-FINDING: property=%s %s: %s" % (prop, fid, f["what"]))
    for s in inconclusive[:50]:
        lines.append("INCONCLUSIVE property=%s %s" % (prop, s))
    for name in vacuous:
        harness_errors.append("vacuous obligation (no check reached): %s" % name)
    if harness_errors:
        for e in harness_errors[:20]:
            lines.append("HARNESS-ERROR property=%s %s" % (prop, e))
        if exit_code == 0:
            exit_code = H.EXIT_HARNESS

    wall = time.time() - t0
    ev = {
        "property_id": prop, "tier": tier, "seed": seed, "level": "other",
        "coverage": {
            "explanation": info["explanation"],
            "technique": "symbolic execution of the real /repo source (AST-instrumented import, width-tracked "
                         "bit-vector proxies) + z3 %s; counterexamples replayed on the uninstrumented code" % _z3v(),
            "functions_encoded": info.get("functions", []),
            "source_digest": loader.source_digest(),
            "instrumented_files": len(loader.SOURCES),
            "bounds": info.get("bounds", {}),
            "outside_claim": info.get("outside", []),
            "obligations": tot["obligations"],
            "discharged": tot["discharged"],
            "discharged_by_solver_query": tot["solver_decided"],
            "violated_obligations": tot["violated"],
            "inconclusive_obligations": tot["unknown"],
            "inconclusive": inconclusive[:50],
            "harness_runs": len(obs),
            "paths_explored": tot["paths"],
            "solver_queries": tot["solver_calls"],
            "solver_seconds": round(tot["solver_s"], 2),
            "value_forks": tot["value_forks"],
            "max_ticks_seen": tot["max_ticks"],
            "evaluations": max(1, tot["solver_calls"]),
            "distinct_nontrivial": max(0, tot["solver_decided"]),
            "rule": info.get("rule", "one obligation = one (harness run, check label); non-trivial = decided by a "
                                     "solver query over symbolic inputs (not by constant folding)"),
            "canary_twins_run": len(canary_obs), "canary_twins_detected": canary_seen,
            "known_findings_matched": sorted(printed_known),
            "oracle_gaps": info.get("oracle_gaps", []),
            "samples": samples or [{"note": "no symbolic sample recorded"}],
            "exhaustive": False,
            "harness_errors": harness_errors[:20],
        },
        "assumptions": info.get("assumptions", []),
        "wall_s": round(wall, 2),
        "violations": n_viol,
    }
    ev["coverage"].update(info.get("extra_coverage", {}))
    os.makedirs(os.path.join(VERIF, "evidence"), exist_ok=True)
    with open(os.path.join(VERIF, "evidence", prop + ".json"), "w") as f:
        json.dump(ev, f, indent=1, sort_keys=True)
    for ln in lines:
        print(ln)
    print("%s tier=%s obligations=%d discharged=%d (solver-decided %d) violated=%d inconclusive=%d paths=%d "
          "solver_queries=%d solver_s=%.1f wall=%.1fs exit=%d"
          % (prop, tier, tot["obligations"], tot["discharged"], tot["solver_decided"], tot["violated"], tot["unknown"],
             tot["paths"], tot["solver_calls"], tot["solver_s"], wall, exit_code))
    return exit_code


def _short(p):
    s = json.dumps(p, default=str)
    return p if len(s) < 300 else s[:300] + "..."


def _z3v():
    try:
        import z3
        return z3.get_version_string()
    except Exception:
        return "?"
