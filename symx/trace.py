"""Shared-memory access tracer (C09 threads).  Active only while a Tracer is installed;
otherwise the helpers are plain getattr / setattr / setitem."""
import sys
import threading
import types

TR = None  # the active Tracer

_MUTATORS = {"append", "extend", "insert", "pop", "remove", "clear", "update", "setdefault", "popitem", "add", "discard",
             "sort", "reverse", "__setitem__", "__delitem__"}


def _vkey(v):
    """comparison key of a value: equal keys <=> indistinguishable for the reader"""
    if isinstance(v, (int, str, bool, float, type(None), bytes)):
        return ("v", repr(v))
    if isinstance(v, bytearray):
        return ("ba", bytes(v))
    if isinstance(v, tuple):
        return ("t",) + tuple(_vkey(x) for x in v)
    return ("id", id(v))


def _site(depth=2):
    f = sys._getframe(depth)
    while f is not None and ("/symx/" in f.f_code.co_filename):
        f = f.f_back  # helpers of the instrumentation are not sites
    return (f.f_code.co_filename, f.f_lineno)


class Tracer:
    def __init__(self, shared_ids):
        self.shared = shared_ids
        self.events = {}      # thread ident -> list of (kind, loc, vkey, site)
        self.first_old = {}   # loc -> (owner, name/key, old value, existed) at first write
        self.lock = threading.Lock()
        self.hook = None      # optional callable(kind, loc, site) used as a yield point

    def log(self, kind, loc, v, site):
        ev = (kind, loc, _vkey(v), site)
        self.events.setdefault(threading.get_ident(), []).append(ev)
        if self.hook:
            self.hook(kind, loc, site)


def _owner_for_read(o, name):
    """the shared object an attribute read is served from, or None if it is thread-local"""
    if isinstance(o, type):
        for c in o.__mro__:
            if name in c.__dict__:
                return c
        return None
    if isinstance(o, types.ModuleType):
        return o
    d = getattr(o, "__dict__", None)
    if d is not None and name in d:
        return o if (TR is not None and id(o) in TR.shared) else None
    for c in type(o).__mro__:
        if name in c.__dict__:
            v = c.__dict__[name]
            if isinstance(v, (types.FunctionType, property, staticmethod, classmethod)) or hasattr(v, "__get__") and not isinstance(v, type):
                return None
            return c
    return None


def ga(o, name):
    v = getattr(o, name)
    t = TR
    if t is not None and not callable(v) or (t is not None and isinstance(v, type)):
        try:
            owner = _owner_for_read(o, name)
        except Exception:
            owner = None
        if owner is not None and (isinstance(owner, (type, types.ModuleType)) or id(owner) in t.shared):
            t.log("R", (id(owner), name), v, _site())
    return v


def sa(o, name, v):
    t = TR
    if t is not None and (isinstance(o, (type, types.ModuleType)) or id(o) in t.shared):
        loc = (id(o), name)
        if loc not in t.first_old:
            t.first_old[loc] = ("attr", o, name, getattr(o, name, None), name in getattr(o, "__dict__", {}))
        t.log("W", loc, v, _site())
        if isinstance(v, (dict, list, set, bytearray)):
            t.shared.add(id(v))  # an object stored into shared memory is shared from now on
    setattr(o, name, v)


def si(o, i, v):
    t = TR
    if t is not None and id(o) in t.shared and _indices(o, i) is not None:
        # slice assignment: a write of every element covered (and of the extent)
        site = _site()
        try:
            vals = list(v)
        except Exception:
            vals = []
        for n, k in enumerate(_indices(o, i)):
            loc = (id(o), "[%r]" % k)
            if loc not in t.first_old:
                t.first_old[loc] = ("item", o, k, o[k], True)
            t.log("W", loc, vals[n] if n < len(vals) else object(), site)
        if len(vals) != len(_indices(o, i)):
            loc = (id(o), "*")
            if loc not in t.first_old:
                t.first_old[loc] = ("whole", o, None, type(o)(o), True)
            t.log("W", loc, object(), site)
        o[i] = v
        return
    if t is not None and id(o) in t.shared:
        try:
            key = repr(i)
        except Exception:
            key = "?"
        loc = (id(o), "[%s]" % key)
        if loc not in t.first_old:
            try:
                old, existed = o[i], True
            except Exception:
                old, existed = None, False
            t.first_old[loc] = ("item", o, i, old, existed)
        t.log("W", loc, v, _site())
        if isinstance(v, (dict, list, set, bytearray)):
            t.shared.add(id(v))
    o[i] = v


def _indices(o, i):
    """the element indices a slice of a shared sequence covers (None: not a sequence slice)"""
    if isinstance(i, slice) and isinstance(o, (list, bytearray)):
        try:
            return list(range(*i.indices(len(o))))[:256]
        except Exception:
            return None
    return None


def _read_all(t, o, site):
    """a read of the whole container is a read of every entry it holds now (and of its extent, '*')"""
    t.log("R", (id(o), "*"), object(), site)
    try:
        if isinstance(o, (list, bytearray)):
            for k in range(min(len(o), 256)):
                t.log("R", (id(o), "[%r]" % k), o[k], site)
        elif isinstance(o, dict):
            for n, (k, v) in enumerate(list(o.items())):
                if n >= 256:
                    break
                t.log("R", (id(o), "[%s]" % repr(k)), v, site)
    except Exception:
        pass


def read_item(o, i, v):
    """called from rt.getitem for subscript loads"""
    t = TR
    if t is not None and id(o) in t.shared:
        idx = _indices(o, i)
        if idx is not None:
            site = _site()
            for k in idx:
                t.log("R", (id(o), "[%r]" % k), o[k], site)
            return
        try:
            key = repr(i)
        except Exception:
            key = "?"
        t.log("R", (id(o), "[%s]" % key), v, _site())


_READERS = {"get", "keys", "values", "items", "copy", "index", "count", "__contains__", "__getitem__", "__iter__", "__len__"}


def method_call(f, args=()):
    """called from rt.call: a mutating method of a shared container is a write to the whole container, a querying
    method a read of the whole container"""
    t = TR
    if t is None:
        return
    s = getattr(f, "__self__", None)
    if s is not None and id(s) in t.shared:
        n = getattr(f, "__name__", "")
        if n in _MUTATORS:
            loc = (id(s), "*")
            site = _site()
            if loc not in t.first_old and isinstance(s, (list, bytearray, dict, set)):
                try:
                    t.first_old[loc] = ("whole", s, None, type(s)(s), True)
                except Exception:
                    pass
            t.log("W", loc, object(), site)
            # ... and, conservatively, of every entry the container holds now (readers of single entries conflict)
            try:
                keys = range(min(len(s), 256)) if isinstance(s, (list, bytearray)) else (list(s.keys())[:256] if isinstance(s, dict) else [])
                for k in keys:
                    t.log("W", (id(s), "[%s]" % repr(k)), object(), site)
            except Exception:
                pass
        elif n in ("get", "__getitem__", "__contains__") and args:
            # a keyed read: the location is the entry, the value what is there now
            try:
                key = repr(args[0])
                cur = s.get(args[0], None) if hasattr(s, "get") else None
            except Exception:
                key, cur = "?", None
            t.log("R", (id(s), "[%s]" % key), cur, _site())
        elif n in _READERS:
            _read_all(t, s, _site())


def it(o):
    """iteration over / unpacking of a shared container reads the whole container"""
    t = TR
    if t is not None and id(o) in t.shared:
        _read_all(t, o, _site())
    return o


def restore(tr):
    """undo every traced write (back to the state before the first traced run)"""
    for loc, (kind, o, k, old, existed) in reversed(list(tr.first_old.items())):   # an undo log: newest first
        try:
            if kind == "whole":
                if isinstance(o, (list, bytearray)):
                    o[:] = old
                elif isinstance(o, (dict, set)):
                    o.clear()
                    o.update(old)
                continue
            if kind == "attr":
                if existed:
                    setattr(o, k, old)
                else:
                    try:
                        delattr(o, k)
                    except AttributeError:
                        pass
            else:
                if existed:
                    o[k] = old
                else:
                    try:
                        del o[k]
                    except Exception:
                        pass
        except Exception:
            pass


LAST_WALK = [0]


def shared_ids(prefix="pyscsi"):
    """ids of mutable objects reachable from module globals, class dictionaries and function defaults"""
    seen = set()
    out = set()
    stack = []
    for name, m in list(sys.modules.items()):
        if m is not None and (name == prefix or name.startswith(prefix + ".")):
            stack.extend(vars(m).values())
    depth_guard = 0
    while stack and depth_guard < 5000000:
        depth_guard += 1
        v = stack.pop()
        if id(v) in seen:
            continue
        seen.add(id(v))
        if isinstance(v, (dict, list, set, bytearray)):
            out.add(id(v))
            if isinstance(v, dict):
                stack.extend(v.values())
            elif isinstance(v, (list, set)):
                stack.extend(v)
        elif isinstance(v, tuple):
            stack.extend(v)
        elif isinstance(v, type):
            if getattr(v, "__module__", "").startswith(prefix):
                stack.extend(vars(v).values())
        elif isinstance(v, types.FunctionType):
            if v.__defaults__:
                stack.extend(v.__defaults__)
            if v.__kwdefaults__:
                stack.extend(v.__kwdefaults__.values())
        elif isinstance(v, (staticmethod, classmethod)):
            stack.append(v.__func__)
        elif hasattr(v, "__dict__") and type(v).__module__.startswith(prefix):
            out.add(id(v))
            stack.extend(vars(v).values())
    LAST_WALK[0] = depth_guard
    return out
