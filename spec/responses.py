"""Independent builders of device responses (oracle of C04 / C06, reused by C12).

Each generator lays a response out as the standard prescribes -- positions written as
(byte, msb, lsb) from SPC-4 r37, SBC-3 r36, SMC-3 r16, MMC-6 r02g, SAT-3 -- with every
*field* a fresh input of the harness context (solver variable) and every *length / count*
computed from the structure.  It returns (bytes, expected) where `expected` maps the
library's result keys (its API) to the inputs placed at the standard's positions.
Result keys the standard defines but this file does not state are oracle gaps.

Plain python over ints: runs unchanged on symx proxies and in concrete replays.
"""
from .cdb_layouts import B, BE, _place, width


class Gen:
    """response under construction"""

    def __init__(self, ctx, tag=""):
        self.ctx, self.tag = ctx, tag
        self.n = 0

    def name(self, k):
        self.n += 1
        return "%s%s_%d" % (self.tag, k, self.n)

    def fields(self, size, layout, out=None, base=0, skip=()):
        """`size` zero bytes with one fresh input per layout entry placed at its position"""
        buf = [0] * size
        exp = {} if out is None else out
        for key, segs in layout.items():
            if key in skip:
                continue
            if isinstance(segs, tuple) and segs[0] == "bytes":
                _, off, ln = segs
                v = self.ctx.bytes(self.name(key), ln)
                for i in range(ln):
                    buf[off + i] = v[i]
                exp[key] = v
            else:
                v = self.ctx.int(self.name(key), width(segs))
                _place(buf, segs, v)
                exp[key] = v
        return buf, exp

    def raw(self, key, n):
        return self.ctx.bytes(self.name(key), n)


def BYTES(off, n):
    return ("bytes", off, n)


def put(buf, segs, v):
    _place(buf, segs, v)


# ------------------------------------------------------------------ INQUIRY (SPC-4 6.6)
INQ_HDR = {"peripheral_qualifier": B(0, 7, 5), "peripheral_device_type": B(0, 4, 0)}
INQ_STD = dict(INQ_HDR, **{
    "rmb": B(1, 7), "version": B(2, 7, 0), "normaca": B(3, 5), "hisup": B(3, 4), "response_data_format": B(3, 3, 0),
    "additional_length": B(4, 7, 0), "sccs": B(5, 7), "acc": B(5, 6), "tpgs": B(5, 5, 4), "3pc": B(5, 3), "protect": B(5, 0),
    "encserv": B(6, 6), "vs": B(6, 5), "multip": B(6, 4), "addr16": B(6, 0), "wbus16": B(7, 5), "sync": B(7, 4),
    "cmdque": B(7, 1), "vs2": B(7, 0), "t10_vendor_identification": BYTES(8, 8), "product_identification": BYTES(16, 16),
    "product_revision_level": BYTES(32, 4), "clocking": B(56, 3, 2), "qas": B(56, 1), "ius": B(56, 0)})


def inquiry_standard(ctx, trailing=0):
    g = Gen(ctx)
    buf, exp = g.fields(96, INQ_STD, skip=("additional_length",))
    buf[4] = 96 - 5
    exp["additional_length"] = 91
    return buf + list(g.raw("trail", trailing)), exp


VPD_BLOCK_LIMITS = {  # SBC-3 6.6.4
    "wsnz": B(4, 0), "max_caw_len": B(5, 7, 0), "opt_xfer_len_gran": BE(6, 2), "max_xfer_len": BE(8, 4),
    "opt_xfer_len": BE(12, 4), "max_pfetch_len": BE(16, 4), "max_unmap_lba_count": BE(20, 4),
    "max_unmap_bd_count": BE(24, 4), "opt_unmap_gran": BE(28, 4), "ugavalid": B(32, 7),
    "unmap_gran_alignment": BE(32, 4, msb=6), "max_ws_len": BE(36, 8)}
VPD_BLOCK_DEV_CHAR = {  # SBC-3 6.6.3
    "medium_rotation_rate": BE(4, 2), "product_type": B(6, 7, 0), "wabereq": B(7, 7, 6), "wacereq": B(7, 5, 4),
    "nominal_form_factor": B(7, 3, 0), "fuab": B(8, 1), "vbuls": B(8, 0)}
VPD_LBP = {  # SBC-3 6.6.5
    "threshold_exponent": B(4, 7, 0), "lbpu": B(5, 7), "lpbws": B(5, 6), "lbpws10": B(5, 5), "lbprz": B(5, 2),
    "anc_sup": B(5, 1), "dp": B(5, 0), "provisioning_type": B(6, 2, 0)}
VPD_REFERRALS = {"user_data_segment_size": BE(8, 4), "user_data_segment_multiplier": BE(12, 4)}  # SBC-3 6.6.7
VPD_EXTENDED = {  # SPC-4 7.8.7
    "activate_microcode": B(4, 7, 6), "spt": B(4, 5, 3), "grd_chk": B(4, 2), "app_chk": B(4, 1), "ref_chk": B(4, 0),
    "uask_sup": B(5, 5), "group_sup": B(5, 4), "prior_sup": B(5, 3), "headsup": B(5, 2), "ordsup": B(5, 1),
    "simpsup": B(5, 0), "wu_sup": B(6, 3), "crd_sup": B(6, 2), "nv_sup": B(6, 1), "v_sup": B(6, 0), "p_i_i_sup": B(7, 4),
    "luiclr": B(7, 0), "r_sup": B(8, 4), "cbcs": B(8, 0), "multi_it_nexus_microcode_download": B(9, 3, 0),
    "extended_self_test_completion_minutes": BE(10, 2), "poa_sup": B(12, 7), "hra_sup": B(12, 6), "vsa_sup": B(12, 5),
    "maximum_supported_sense_data_length": B(13, 7, 0)}
VPD_ATA_INFO = {"sat_vendor_identification": BYTES(8, 8), "sat_product_identification": BYTES(16, 16),
                "sat_product_rev_lvl": BYTES(32, 4)}  # SAT-3 12.4.2 (signature / IDENTIFY data: oracle gap)
VPD_FIXED = {0xB0: (VPD_BLOCK_LIMITS, 64), 0xB1: (VPD_BLOCK_DEV_CHAR, 64), 0xB2: (VPD_LBP, 8), 0xB3: (VPD_REFERRALS, 16),
             0x86: (VPD_EXTENDED, 64), 0x89: (VPD_ATA_INFO, 572)}


def _vpd_header(g, page, length, exp):
    hdr, e = g.fields(4, INQ_HDR)
    exp.update(e)
    hdr[1] = page
    hdr[2], hdr[3] = (length >> 8) & 0xFF, length & 0xFF
    exp["page_code"] = page
    return hdr


def vpd_fixed(ctx, page, trailing=0):
    g = Gen(ctx)
    lay, size = VPD_FIXED[page]
    exp = {}
    body, e = g.fields(size, lay)
    exp.update(e)
    hdr = _vpd_header(g, page, size - 4, exp)
    return hdr + body[4:] + list(g.raw("trail", trailing)), exp


def vpd_supported_pages(ctx, n, trailing=0):
    g = Gen(ctx)
    exp = {}
    pages = list(g.raw("pages", n))
    hdr = _vpd_header(g, 0x00, n, exp)
    exp["vpd_pages"] = pages
    return hdr + pages + list(g.raw("trail", trailing)), exp


def vpd_serial(ctx, n, trailing=0):
    g = Gen(ctx)
    exp = {}
    sn = g.raw("serial", n)
    hdr = _vpd_header(g, 0x80, n, exp)
    exp["unit_serial_number"] = sn
    return hdr + list(sn) + list(g.raw("trail", trailing)), exp


# designation descriptors (SPC-4 7.8.6)
DESIG_HDR = {"protocol_identifier": B(0, 7, 4), "code_set": B(0, 3, 0), "piv": B(1, 7), "association": B(1, 5, 4)}
DESIGNATOR_KINDS = ["vendor", "t10", "eui8", "eui12", "eui16", "naa2", "naa3", "naa5", "naa6", "relport", "tpg", "lugroup",
                    "md5", "name"]


def designator(g, kind):
    """(designator type code, designator bytes, expected dict)"""
    c = g.ctx
    if kind == "vendor":
        v = g.raw("vs", 5)
        return 0, list(v), {"vendor_specific": v}
    if kind == "t10":
        a, b = g.raw("t10", 8), g.raw("vsid", 6)
        return 1, list(a) + list(b), {"t10_vendor_id": a, "vendor_specific_id": b}
    if kind in ("eui8", "eui12", "eui16"):
        cid = c.int(g.name("cid"), 24)
        ext = g.raw("ext", 5)
        cidb = [(cid >> 16) & 0xFF, (cid >> 8) & 0xFF, cid & 0xFF]
        if kind == "eui8":
            return 2, cidb + list(ext), {"ieee_company_id": cid, "vendor_specific_extension_id": ext}
        if kind == "eui12":
            d = g.raw("dir", 4)
            return 2, cidb + list(ext) + list(d), {"ieee_company_id": cid, "vendor_specific_extension_id": ext,
                                                   "directory_id": d}
        ie = g.raw("idext", 8)
        return 2, list(ie) + cidb + list(ext), {"identifier_extension": ie, "ieee_company_id": cid,
                                                "vendor_specific_extension_id": ext}
    if kind == "naa2":  # IEEE Extended
        lay = {"vendor_specific_identifier_a": BE(0, 2, msb=3), "ieee_company_id": BE(2, 3),
               "vendor_specific_identifier_b": BE(5, 3)}
        buf, e = g.fields(8, lay)
        buf[0] = buf[0] | 0x20
        e["naa"] = 2
        return 3, buf, e
    if kind == "naa3":  # locally assigned
        buf, e = g.fields(8, {"locally_administered_value": BE(0, 8, msb=3)})
        buf[0] = buf[0] | 0x30
        e["naa"] = 3
        return 3, buf, e
    if kind in ("naa5", "naa6"):  # IEEE Registered (Extended)
        lay = {"ieee_company_id": [(0, 3, 0, 20), (1, 7, 0, 12), (2, 7, 0, 4), (3, 7, 4, 0)],
               "vendor_specific_identifier": BE(3, 5, msb=3)}
        if kind == "naa6":
            lay["vendor_specific_identifier_extension"] = BE(8, 8)
        buf, e = g.fields(8 if kind == "naa5" else 16, lay)
        buf[0] = buf[0] | (0x50 if kind == "naa5" else 0x60)
        e["naa"] = 5 if kind == "naa5" else 6
        return 3, buf, e
    if kind == "relport":
        buf, e = g.fields(4, {"relative_port": BE(2, 2)})
        return 4, buf, e
    if kind == "tpg":
        buf, e = g.fields(4, {"target_portal_group": BE(2, 2)})
        return 5, buf, e
    if kind == "lugroup":
        buf, e = g.fields(4, {"logical_unit_group": BE(2, 2)})
        return 6, buf, e
    if kind == "md5":
        v = g.raw("md5", 16)
        return 7, list(v), {"md5_logical_identifier": v}
    if kind == "name":
        s = b"iqn.2001-04.com.example:tgt\x00"
        return 8, list(s), {"scsi_name_string": bytearray(s)}
    raise AssertionError(kind)


def designation_descriptor(g, kind, concrete_header=False):
    dtype, body, dexp = designator(g, kind)
    if concrete_header:
        hdr, e = [0x51, 0x90, 0, 0], {"protocol_identifier": 5, "code_set": 1, "piv": 1, "association": 1}
    else:
        hdr, e = g.fields(4, DESIG_HDR)
    hdr[1] = hdr[1] | dtype
    hdr[3] = len(body)
    e["designator_type"] = dtype
    e["designator_length"] = len(body)
    e["designator"] = dexp
    return hdr + body, e


def vpd_device_identification(ctx, kinds, trailing=0, concrete_headers=False):
    g = Gen(ctx)
    exp = {}
    body, descs = [], []
    for k in kinds:
        b, e = designation_descriptor(g, k, concrete_headers)
        body += b
        descs.append(e)
    hdr = _vpd_header(g, 0x83, len(body), exp)
    exp["designator_descriptors"] = descs
    return hdr + body + list(g.raw("trail", trailing)), exp


def fix_protocol_identifier(exp_desc, piv, association):
    """SPC-4: PROTOCOL IDENTIFIER is only meaningful when PIV=1 and ASSOCIATION is 1 or 2; the library drops
    the key otherwise (API convention, applied to the expectation after the path fixed piv/association)"""
    if piv == 0 or (association != 1 and association != 2):
        exp_desc.pop("protocol_identifier", None)


# ------------------------------------------------------------------ MODE SENSE (SPC-4 7.5)
MODE_HDR6 = {"medium_type": B(1, 7, 0), "device_specific_parameter": B(2, 7, 0)}
MODE_HDR10 = {"medium_type": B(2, 7, 0), "device_specific_parameter": B(3, 7, 0), "longlba": B(4, 0)}
PAGE_CONTROL = {  # page 0Ah, offsets within the page (byte 0 = page code)
    "tst": B(2, 7, 5), "tmf_only": B(2, 4), "dpicz": B(2, 3), "d_sense": B(2, 2), "gltsd": B(2, 1), "rlec": B(2, 0),
    "queue_algorithm_modifier": B(3, 7, 4), "nuar": B(3, 3), "qerr": B(3, 2, 1), "vs": B(4, 7), "rac": B(4, 6),
    "ua_intlck_ctrl": B(4, 5, 4), "swp": B(4, 3), "ato": B(5, 7), "tas": B(5, 6), "atmpe": B(5, 5), "rwwp": B(5, 4),
    "autoload_mode": B(5, 2, 0), "busy_timeout_period": BE(8, 2), "extended_self_test_completion_time": BE(10, 2)}
PAGE_CONTROL_EXT = {  # page 0Ah subpage 01h (4-byte sub_page header)
    "tcmos": B(4, 2), "scsip": B(4, 1), "ialuae": B(4, 0), "initial_command_priority": B(5, 3, 0),
    "maximum_sense_data_length": B(6, 7, 0)}
PAGE_DISCONNECT = {  # page 02h
    "buffer_full_ratio": B(2, 7, 0), "buffer_empty_ratio": B(3, 7, 0), "bus_inactivity_limit": BE(4, 2),
    "disconnect_time_limit": BE(6, 2), "connect_time_limit": BE(8, 2), "maximum_burst_size": BE(10, 2),
    "emdp": B(12, 7), "fair_arbitration": B(12, 6, 4), "dimm": B(12, 3), "dtdc": B(12, 2, 0), "first_burst_size": BE(14, 2)}
PAGE_ELEMENT_ADDRESS = {  # SMC-3 7.3.4 page 1Dh
    "first_medium_transport_element_address": BE(2, 2), "num_medium_transport_elements": BE(4, 2),
    "first_storage_element_address": BE(6, 2), "num_storage_elements": BE(8, 2),
    "first_import_element_address": BE(10, 2), "num_import_elements": BE(12, 2),
    "first_data_transfer_element_address": BE(14, 2), "num_data_transfer_elements": BE(16, 2)}
MODE_PAGES = {"control": (0x0A, None, PAGE_CONTROL, 12), "control-ext": (0x0A, 1, PAGE_CONTROL_EXT, 32),
              "disconnect": (0x02, None, PAGE_DISCONNECT, 16), "element-address": (0x1D, None, PAGE_ELEMENT_ADDRESS, 20)}


def mode_page(g, kind):
    code, sub, lay, size = MODE_PAGES[kind]
    buf, e = g.fields(size, lay)
    ps = g.ctx.int(g.name("ps"), 1)
    buf[0] = (ps << 7) | code
    e["ps"], e["page_code"] = ps, code
    if sub is None:
        buf[1] = size - 2
        e["spf"] = 0
    else:
        buf[0] = buf[0] | 0x40
        buf[1] = sub
        buf[2], buf[3] = ((size - 4) >> 8) & 0xFF, (size - 4) & 0xFF
        e["spf"], e["sub_page_code"] = 1, sub
    return buf, e


def mode_sense(ctx, ten, kinds, block_descriptor=False, trailing=0):
    g = Gen(ctx)
    hdr, exp = g.fields(8 if ten else 4, MODE_HDR10 if ten else MODE_HDR6)
    bd = list(g.raw("blockdesc", 8)) if block_descriptor else []
    pages, pexp = [], []
    for k in kinds:
        b, e = mode_page(g, k)
        pages += b
        pexp.append(e)
    total = len(hdr) + len(bd) + len(pages)
    if ten:
        hdr[0], hdr[1] = ((total - 2) >> 8) & 0xFF, (total - 2) & 0xFF
        hdr[6], hdr[7] = 0, len(bd)
    else:
        hdr[0] = total - 1
        hdr[3] = len(bd)
    exp["mode_pages"] = pexp
    return hdr + bd + pages + list(g.raw("trail", trailing)), exp


# ------------------------------------------------------------------ SBC
READCAP10 = {"returned_lba": BE(0, 4), "block_length": BE(4, 4)}
READCAP16 = {"returned_lba": BE(0, 8), "block_length": BE(8, 4), "p_type": B(12, 3, 1), "prot_en": B(12, 0),
             "p_i_exponent": B(13, 7, 4), "lbppbe": B(13, 3, 0), "lbpme": B(14, 7), "lbprz": B(14, 6),
             "lowest_aligned_lba": BE(14, 2, msb=5)}


def read_capacity(ctx, sixteen, trailing=0):
    g = Gen(ctx)
    buf, exp = g.fields(32 if sixteen else 8, READCAP16 if sixteen else READCAP10)
    return buf + list(g.raw("trail", trailing)), exp


LBA_STATUS_DESC = {"lba": BE(0, 8), "num_blocks": BE(8, 4), "p_status": B(12, 3, 0)}


def get_lba_status(ctx, n, trailing=0):
    g = Gen(ctx)
    body, descs = [], []
    for _ in range(n):
        b, e = g.fields(16, LBA_STATUS_DESC)
        body += b
        descs.append(e)
    ln = 4 + len(body)  # PARAMETER DATA LENGTH counts the bytes after itself
    hdr = [(ln >> 24) & 0xFF, (ln >> 16) & 0xFF, (ln >> 8) & 0xFF, ln & 0xFF, 0, 0, 0, 0]
    return hdr + body + list(g.raw("trail", trailing)), {"lbas": descs}


# ------------------------------------------------------------------ SPC
def report_luns(ctx, n, trailing=0):
    """SPC-4 6.33: LUN LIST LENGTH (bytes 0-3) = 8*n, bytes 4-7 reserved, LUN list from byte 8"""
    g = Gen(ctx)
    body, luns = [], []
    for i in range(n):
        v = ctx.int(g.name("lun"), 64)
        body += [(v >> (8 * (7 - k))) & 0xFF for k in range(8)]
        luns.append({"lun%d" % i: v})
    ln = 8 * n
    hdr = [(ln >> 24) & 0xFF, (ln >> 16) & 0xFF, (ln >> 8) & 0xFF, ln & 0xFF, 0, 0, 0, 0]
    return hdr + body + list(g.raw("trail", trailing)), {"luns": luns}


TPG_DESC = {"pref": B(0, 7), "asymmetric_access_state": B(0, 3, 0), "t_sup": B(1, 7), "o_sup": B(1, 6), "u_sup": B(1, 3),
            "s_sup": B(1, 2), "an_sup": B(1, 1), "ao_sup": B(1, 0), "target_port_group": BE(2, 2), "status_code": B(5, 7, 0),
            "vendor": B(6, 7, 0)}


def report_target_port_groups(ctx, extended, ports_per_group, trailing=0):
    g = Gen(ctx)
    exp = {}
    body = []
    if extended:
        itt = ctx.int(g.name("itt"), 8)
        body += [0x10, itt, 0, 0]
        exp["format_type"], exp["implicit_transition_time"] = 1, itt
    else:
        exp["format_type"] = 0
    groups = []
    for np in ports_per_group:
        b, e = g.fields(8, TPG_DESC)
        b[7] = np
        e["target_port_count"] = np
        ports = []
        for _ in range(np):
            rid = ctx.int(g.name("rtpi"), 16)
            b += [0, 0, (rid >> 8) & 0xFF, rid & 0xFF]
            ports.append({"relative_target_port_id": rid})
        e["target_ports"] = ports
        body += b
        groups.append(e)
    ln = len(body)
    hdr = [(ln >> 24) & 0xFF, (ln >> 16) & 0xFF, (ln >> 8) & 0xFF, ln & 0xFF]
    exp["target_port_group_descriptors"] = groups
    return hdr + body + list(g.raw("trail", trailing)), exp


PRIORITY_DESC = {"current_priority": B(0, 3, 0), "rtpi": BE(2, 2)}


def report_priority(ctx, n, trailing=0):
    """SPC-4 6.35: PRIORITY PARAMETER DATA LENGTH (n-3), descriptors with a TransportID"""
    g = Gen(ctx)
    body, descs = [], []
    for _ in range(n):
        b, e = g.fields(8, PRIORITY_DESC)
        tid = [0x06, 0, 0, 0] + list(g.raw("sas", 8)) + [0] * 12
        b[6], b[7] = 0, len(tid)
        e["adlen"] = len(tid)
        body += b + tid
        descs.append(e)
    ln = len(body)
    hdr = [(ln >> 24) & 0xFF, (ln >> 16) & 0xFF, (ln >> 8) & 0xFF, ln & 0xFF]
    return hdr + body + list(g.raw("trail", trailing)), {"priority_descriptors": descs}


# TransportIDs (SPC-4 7.6.4)
TRANSPORT_KINDS = ["fcp", "1394", "rdma", "sas", "iscsi-name", "iscsi-name-isid"]


def transport_id(g, kind, name_len=9):
    c = g.ctx
    if kind == "fcp":
        v = g.raw("nport", 8)
        return [0x00] + [0] * 7 + list(v) + [0] * 8, {"tpid_format": 0, "protocol_id": 0, "n_port_name": v}
    if kind == "1394":
        v = g.raw("eui64", 8)
        return [0x03] + [0] * 7 + list(v) + [0] * 8, {"tpid_format": 0, "protocol_id": 3, "eui64_name": v}
    if kind == "rdma":
        v = g.raw("ipi", 16)
        return [0x04] + [0] * 7 + list(v), {"tpid_format": 0, "protocol_id": 4, "initiator_port_identifier": v}
    if kind == "sas":
        v = g.raw("sas", 8)
        return [0x06, 0, 0, 0] + list(v) + [0] * 12, {"tpid_format": 0, "protocol_id": 6, "sas_address": v}
    name = ("iqn.1993-08.org.debian:01:" + "x" * 200)[:name_len]
    if kind.endswith("-utf8"):
        # iSCSI names are UTF-8 (RFC 3722): characters of two and three bytes
        name = ("iqn.2005-03.org.example:b\u00fcro-\u6771\u4eac-" + "\u00e9" * 200)[:max(name_len, 25)]
    if kind.startswith("iscsi-name-isid"):
        isid = "00023D0000A1" if kind.endswith("-upper") else "00023d000001"
        s, fmt, e = name + ",i,0x" + isid, 1, {"iscsi_name": name, "iscsi_initiator_session_id": isid}
    else:
        s, fmt, e = name, 0, {"iscsi_name": name}
    raw = list(s.encode("utf-8")) + [0]
    while len(raw) % 4:
        raw.append(0)
    e.update({"tpid_format": fmt, "protocol_id": 5})
    return [(fmt << 6) | 0x05, 0, (len(raw) >> 8) & 0xFF, len(raw) & 0xFF] + raw, e


# PERSISTENT RESERVE IN (SPC-4 6.15)
def prin_read_keys(ctx, n, trailing=0):
    g = Gen(ctx)
    gen = ctx.int(g.name("prgen"), 32)
    keys, body = [], []
    for _ in range(n):
        k = ctx.int(g.name("key"), 64)
        keys.append(k)
        body += [(k >> (8 * (7 - i))) & 0xFF for i in range(8)]
    ln = len(body)
    hdr = [(gen >> 24) & 0xFF, (gen >> 16) & 0xFF, (gen >> 8) & 0xFF, gen & 0xFF,
           (ln >> 24) & 0xFF, (ln >> 16) & 0xFF, (ln >> 8) & 0xFF, ln & 0xFF]
    return hdr + body + list(g.raw("trail", trailing)), {"pr_generation": gen, "reservation_keys": keys}


def prin_read_reservation(ctx, held, trailing=0):
    g = Gen(ctx)
    gen = ctx.int(g.name("prgen"), 32)
    hdr = [(gen >> 24) & 0xFF, (gen >> 16) & 0xFF, (gen >> 8) & 0xFF, gen & 0xFF, 0, 0, 0, 16 if held else 0]
    exp = {"pr_generation": gen}
    body = []
    if held:
        b, e = g.fields(24, {"reservation_key": BE(8, 8), "scope": B(21, 7, 4), "type": B(21, 3, 0)})
        body = b[8:]
        exp.update(e)
    return hdr + body + list(g.raw("trail", trailing)), exp


PR_CAPS = {"rlr_c": B(2, 7), "crh": B(2, 4), "sip_c": B(2, 3), "atp_c": B(2, 2), "ptpl_c": B(2, 0), "tmv": B(3, 7),
           "allow_commands": B(3, 6, 4), "ptpl_a": B(3, 0)}
PR_TYPE_MASK = {"wr_ex_ar": B(4, 7), "ex_ac_ro": B(4, 6), "wr_ex_ro": B(4, 5), "ex_ac": B(4, 3), "wr_ex": B(4, 1),
                "ex_ac_ar": B(5, 0)}


def prin_report_capabilities(ctx, trailing=0):
    g = Gen(ctx)
    buf, exp = g.fields(8, PR_CAPS)
    b2, m = g.fields(8, PR_TYPE_MASK)
    buf = [x | y for x, y in zip(buf, b2)]
    buf[0], buf[1] = 0, 8
    exp["pr_type_mask"] = m
    return buf + list(g.raw("trail", trailing)), exp


FULL_STATUS = {"reservation_key": BE(0, 8), "all_tg_pt": B(12, 1), "r_holder": B(12, 0), "scope": B(13, 7, 4),
               "type": B(13, 3, 0), "relative_target_port_id": BE(18, 2)}


def prin_read_full_status(ctx, kinds, trailing=0, name_len=9):
    g = Gen(ctx)
    gen = ctx.int(g.name("prgen"), 32)
    body, descs = [], []
    for k in kinds:
        b, e = g.fields(24, FULL_STATUS)
        tid, te = transport_id(g, k, name_len)
        n = len(tid)
        b[20], b[21], b[22], b[23] = (n >> 24) & 0xFF, (n >> 16) & 0xFF, (n >> 8) & 0xFF, n & 0xFF
        e["transport_id"] = te
        body += b + tid
        descs.append(e)
    ln = len(body)
    hdr = [(gen >> 24) & 0xFF, (gen >> 16) & 0xFF, (gen >> 8) & 0xFF, gen & 0xFF,
           (ln >> 24) & 0xFF, (ln >> 16) & 0xFF, (ln >> 8) & 0xFF, ln & 0xFF]
    return hdr + body + list(g.raw("trail", trailing)), {"pr_generation": gen, "full_status": descs}


# ------------------------------------------------------------------ SMC-3 READ ELEMENT STATUS (6.11)
RES_HDR = {"first_element_address": BE(0, 2), "num_elements": BE(2, 2)}
RES_DESC_COMMON = {"element_address": BE(0, 2), "except": B(2, 2), "full": B(2, 0), "additional_sense_code": B(4, 7, 0),
                   "additional_sense_code_qualifier": B(5, 7, 0), "svalid": B(9, 7), "invert": B(9, 6), "ed": B(9, 3),
                   "medium_type": B(9, 2, 0), "source_storage_element_address": BE(10, 2)}
RES_DESC_EXTRA = {1: {}, 2: {"access": B(2, 3)}, 4: {"access": B(2, 3)},
                  3: {"oir": B(2, 7), "cmc": B(2, 6), "inenab": B(2, 5), "exenab": B(2, 4), "access": B(2, 3),
                      "impexp": B(2, 1)}}


def read_element_status(ctx, pages, trailing=0):
    """pages: list of (element type 1..4, pvoltag, avoltag, descriptor count)"""
    g = Gen(ctx)
    hdr, exp = g.fields(8, RES_HDR)
    body, pexp = [], []
    for etype, pv, av, nd in pages:
        edl = 12 + (36 if pv else 0) + (36 if av else 0) + 4
        pb, descs = [], []
        for _ in range(nd):
            b, e = g.fields(12, dict(RES_DESC_COMMON, **RES_DESC_EXTRA[etype]))
            if pv:
                t = g.raw("pvoltag", 36)
                b += list(t)
                e["primary_volume_tag"] = t
            if av:
                t = g.raw("avoltag", 36)
                b += list(t)
                e["alternate_volume_tag"] = t
            b += [0, 0, 0, 0]
            pb += b
            descs.append(e)
        n = len(pb)
        ph = [etype, (0x80 if pv else 0) | (0x40 if av else 0), (edl >> 8) & 0xFF, edl & 0xFF, 0,
              (n >> 16) & 0xFF, (n >> 8) & 0xFF, n & 0xFF]
        body += ph + pb
        pexp.append({"element_type": etype, "pvoltag": 1 if pv else 0, "avoltag": 1 if av else 0,
                     "element_descriptors": descs})
    n = len(body)
    hdr[5], hdr[6], hdr[7] = (n >> 16) & 0xFF, (n >> 8) & 0xFF, n & 0xFF
    exp["element_status_pages"] = pexp
    return hdr + body + list(g.raw("trail", trailing)), exp


# ------------------------------------------------------------------ MMC-6 READ DISC INFORMATION (6.21)
RDI_STANDARD = {"erasable": B(2, 4), "state_of_last_session": B(2, 3, 2), "disc_status": B(2, 1, 0),
                "number_of_first_track_on_disc": B(3, 7, 0), "did_v": B(7, 7), "dbc_v": B(7, 6), "uru": B(7, 5),
                "dac_v": B(7, 4), "bg_format_status": B(7, 1, 0), "disc_type": B(8, 7, 0), "disc_identification": BE(12, 4),
                "last_session_lead_in_start_address": BYTES(16, 4), "last_possible_lead_out_start_address": BYTES(20, 4),
                "disc_bar_code": BYTES(24, 8), "disc_application_code": B(32, 7, 0), "number_of_opc_tables": B(33, 7, 0)}
RDI_SPLIT = {"number_of_sessions": (4, 9), "first_track_number_in_last_session": (5, 10),
             "last_track_number_in_last_session": (6, 11)}
RDI_TRACK = {"maximum_possible_number_of_the_tracks": BE(4, 2), "number_of_the_assigned_tracks": BE(6, 2),
             "maximum_possible_number_of_appendable_tracks": BE(8, 2), "current_number_of_appendable_tracks": BE(10, 2)}
RDI_POW = {"remaining_pow_replacements": BE(4, 4), "remaining_pow_reallocation_map_entries": BE(8, 4),
           "number_of_remaining_pow_updates": BE(12, 4)}


def read_disc_information(ctx, dtype, trailing=0):
    g = Gen(ctx)
    if dtype == 0:
        buf, exp = g.fields(34, RDI_STANDARD)
        for key, (lsb, msb) in RDI_SPLIT.items():
            v = ctx.int(g.name(key), 16)
            buf[lsb], buf[msb] = v & 0xFF, (v >> 8) & 0xFF
            exp[key] = v
    elif dtype == 1:
        buf, exp = g.fields(12, RDI_TRACK)
    else:
        buf, exp = g.fields(16, RDI_POW)
    n = len(buf) - 2
    buf[0], buf[1] = (n >> 8) & 0xFF, n & 0xFF
    buf[2] = buf[2] | (dtype << 5)
    exp["disc_information_length"] = n
    exp["disc_information_data_type"] = dtype
    return buf + list(g.raw("trail", trailing)), exp


# ------------------------------------------------------------------ MMC-6 READ CD (6.19) sector layouts
# configuration -> ordered (result key, size) as the data appears on the wire
READCD_CONFIGS = {
    "cdda-userdata": (dict(est=1, mcsb=0x02, c2ei=0, scsb=0), [("data", 2352)]),
    "cdda-userdata-c2-294-subq": (dict(est=1, mcsb=0x02, c2ei=1, scsb=2), [("data", 2352), ("c2ei-data", 294), ("subq", 16)]),
    "mode1-all": (dict(est=2, mcsb=0x17, c2ei=0, scsb=0),
                  [("sync", 12), ("header", 4), ("data", 2048), ("edc", 4), ("zero", 8), ("p-parity", 172), ("q-parity", 104)]),
    # header codes 11b ("all headers") on a Mode 1 sector: there is no sub-header, same layout as 0x17
    "mode1-all-headercodes-11": (dict(est=2, mcsb=0x1F, c2ei=0, scsb=2),
                                 [("sync", 12), ("header", 4), ("data", 2048), ("edc", 4), ("zero", 8), ("p-parity", 172),
                                  ("q-parity", 104), ("subq", 16)]),
    "mode1-userdata-raw-subchannel": (dict(est=2, mcsb=0x02, c2ei=0, scsb=4), [("data", 2048), ("subraw", 96)]),
    "mode2form1-all": (dict(est=4, mcsb=0x1F, c2ei=2, scsb=0),
                       [("sync", 12), ("header", 4), ("subheader", 8), ("data", 2048), ("edc", 4), ("p-parity", 172),
                        ("q-parity", 104), ("c2ei296", 296)]),
    "mode2form2-header-userdata-edc": (dict(est=5, mcsb=0x0F, c2ei=0, scsb=0),
                                       [("header", 4), ("subheader", 8), ("data", 2324), ("edc", 4)]),
    "mode2formless-userdata": (dict(est=3, mcsb=0x02, c2ei=0, scsb=0), [("data", 2336)]),
}


def read_cd(ctx, config, lba, nsectors, symbolic_bytes=24):
    """sectors whose first `symbolic_bytes` bytes of every part are symbolic (the rest is a fixed pattern)"""
    g = Gen(ctx)
    kw, parts = READCD_CONFIGS[config]
    data, exp = [], {}
    for s in range(nsectors):
        r = {}
        for key, size in parts:
            k = min(size, symbolic_bytes)
            chunk = list(g.raw(key.replace("-", "_"), k)) + [(7 * i + s) & 0xFF for i in range(size - k)]
            data += chunk
            if key in ("data", "sync", "edc", "p-parity", "q-parity", "c2ei-data"):
                r[key] = chunk
            elif key == "header":
                r["sector-header"] = {"minute": chunk[0], "second": chunk[1], "frame": chunk[2], "mode": chunk[3]}
            elif key == "c2ei296":
                r["c2ei"] = {"data": chunk}
            elif key == "subraw":
                r["subchannel"] = {"data": chunk}
            elif key == "subq":
                r["subchannel"] = {"data": chunk, "c": chunk[0] >> 4, "adr": chunk[0] & 0x0F, "track-number": chunk[1],
                                   "index-number": chunk[2], "min": chunk[3], "sec": chunk[4], "frame": chunk[5],
                                   "zero": chunk[6], "amin": chunk[7], "asec": chunk[8], "aframe": chunk[9],
                                   "crc": (chunk[10] << 8) | chunk[11], "p": chunk[15] >> 7}
        exp[lba + s] = r
    return data, exp, dict(kw, lba=lba, tl=nsectors)
