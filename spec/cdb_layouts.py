"""Independent statement of the CDB layouts (the oracle of C01/C02/C03/C13/C16/C17).

Written from the standards, in the standards' own notation -- (byte, msb, lsb)
positions -- and never derived from the library's `_cdb_bits` masks:
  SPC-4 r37 / SPC-5, SBC-3 r36 / SBC-4, SMC-3 r16, MMC-6 r02g, SAT-3 r05 (ATA
  PASS-THROUGH), SAM-5 (CDB length by operation code group).
Field names are the *constructor argument names* of the library (its public API),
so that the oracle states: "argument X appears at byte/bit position P".

Everything here is plain python on ints; it runs unchanged on symx proxies.
"""


def BE(start, nbytes, msb=7):
    """big-endian field occupying `nbytes` bytes from `start`; returns segments
    (byte, msb, lsb, source_lsb), most significant first"""
    segs = []
    for i in range(nbytes):
        segs.append((start + i, 7 if i else msb, 0, 8 * (nbytes - 1 - i)))
    return segs


def B(byte, msb, lsb=None):
    if lsb is None:
        lsb = msb
    return [(byte, msb, lsb, 0)]


def width(segs):
    return sum(m - l + 1 for _, m, l, _ in segs)


def cdb_length(opcode):
    """SAM-5 5.2 / SPC-4 4.2.5: CDB length is fixed by the group code (opcode bits 7:5)"""
    g = (opcode >> 5) & 7
    return {0: 6, 1: 10, 2: 10, 4: 16, 5: 12}.get(g)  # 3: variable/reserved, 6/7: vendor specific


ALL5 = ["spc", "sbc", "ssc", "smc", "mmc"]
_RW1 = {"rdprotect": B(1, 7, 5), "dpo": B(1, 4), "fua": B(1, 3), "rarc": B(1, 2)}
_W1 = {"wrprotect": B(1, 7, 5), "dpo": B(1, 4), "fua": B(1, 3)}
_WS1 = {"wrprotect": B(1, 7, 5), "anchor": B(1, 4), "unmap": B(1, 3)}
_ATA2 = {"off_line": B(2, 7, 6), "ck_cond": B(2, 5), "t_type": B(2, 4), "t_dir": B(2, 3), "byte_block": B(2, 2),
         "t_length": B(2, 1, 0)}

# name -> spec.   sets: {set name: key under which that set's table lists the command}
# lookup: how the facade finds the opcode ("key" attribute, or first table key ending in "A3"/"9E")
CDB = {}


def _add(name, mod, cls, opcode, fields, sets, sa=None, data=("none",), extra=None, facade=None, lookup="key",
         defaults=None, length=None, sa_name=None):
    if isinstance(sets, list):
        sets = {s: None for s in sets}
    CDB[name] = dict(name=name, module="pyscsi.pyscsi." + mod, cls=cls, opcode=opcode,
                     length=length or cdb_length(opcode), fields=fields, sets=sets, sa=sa, data=data,
                     extra=extra or {}, facade=facade, lookup=lookup, defaults=defaults or {}, sa_name=sa_name)


def _k(key, sets):
    return {s: key for s in sets}


# ---------------------------------------------------------------- SPC
_add("INQUIRY", "scsi_cdb_inquiry", "Inquiry", 0x12,
     {"evpd": B(1, 0), "page_code": B(2, 7, 0), "alloclen": BE(3, 2)},
     _k("INQUIRY", ALL5), data=("in", "alloc", "alloclen"), facade="inquiry",
     defaults={"evpd": 0, "page_code": 0, "alloclen": 96})
_add("TEST UNIT READY", "scsi_cdb_testunitready", "TestUnitReady", 0x00, {}, _k("TEST_UNIT_READY", ALL5),
     facade="testunitready")
_add("REPORT LUNS", "scsi_cdb_report_luns", "ReportLuns", 0xA0,
     {"report": B(2, 7, 0), "alloclen": BE(6, 4)}, _k("REPORT_LUNS", ALL5),
     data=("in", "alloc", "alloclen"), facade="reportluns", defaults={"report": 0, "alloclen": 96})
_add("MODE SENSE(6)", "scsi_cdb_modesense6", "ModeSense6", 0x1A,
     {"dbd": B(1, 3), "pc": B(2, 7, 6), "page_code": B(2, 5, 0), "sub_page_code": B(3, 7, 0), "alloclen": B(4, 7, 0)},
     _k("MODE_SENSE_6", ["spc", "sbc", "ssc", "smc"]), data=("in", "alloc", "alloclen"), facade="modesense6",
     defaults={"sub_page_code": 0, "dbd": 0, "pc": 0, "alloclen": 96})
_add("MODE SENSE(10)", "scsi_cdb_modesense10", "ModeSense10", 0x5A,
     {"llbaa": B(1, 4), "dbd": B(1, 3), "pc": B(2, 7, 6), "page_code": B(2, 5, 0), "sub_page_code": B(3, 7, 0),
      "alloclen": BE(7, 2)},
     _k("MODE_SENSE_10", ALL5), data=("in", "alloc", "alloclen"), facade="modesense10",
     defaults={"sub_page_code": 0, "llbaa": 0, "dbd": 0, "pc": 0, "alloclen": 96})
_add("MODE SELECT(6)", "scsi_cdb_modesense6", "ModeSelect6", 0x15,
     {"pf": B(1, 4), "sp": B(1, 0)}, _k("MODE_SELECT_6", ["spc", "sbc", "ssc", "smc"]),
     data=("out", "plist", B(4, 7, 0)), facade="modeselect6", extra={"data": "modepage"},
     defaults={"pf": 1, "sp": 0})
_add("MODE SELECT(10)", "scsi_cdb_modesense10", "ModeSelect10", 0x55,
     {"pf": B(1, 4), "sp": B(1, 0)}, _k("MODE_SELECT_10", ALL5),
     data=("out", "plist", BE(7, 2)), facade="modeselect10", extra={"data": "modepage"},
     defaults={"pf": 1, "sp": 0})
_add("PREVENT ALLOW MEDIUM REMOVAL", "scsi_cdb_preventallow_mediumremoval", "PreventAllowMediumRemoval", 0x1E,
     {"prevent": B(4, 1, 0)}, _k("PREVENT_ALLOW_MEDIUM_REMOVAL", ALL5), facade="preventallowmediumremoval",
     defaults={"prevent": 0})
_PRIN = _k("PERSISTENT_RESERVE_IN", ["spc", "sbc", "ssc", "smc"])
for _n, _c, _sa, _san in (("READ KEYS", "PersistentReserveInReadKeys", 0, "READ_KEYS"),
                          ("READ RESERVATION", "PersistentReserveInReadReservation", 1, "READ_RESERVATION"),
                          ("REPORT CAPABILITIES", "PersistentReserveInReportCapabilities", 2, "REPORT_CAPABILITIES"),
                          ("READ FULL STATUS", "PersistentReserveInReadFullStatus", 3, "READ_FULL_STATUS")):
    _add("PERSISTENT RESERVE IN/" + _n, "scsi_cdb_persistentreservein", _c, 0x5E, {"alloclen": BE(7, 2)}, _PRIN,
         sa=(B(1, 4, 0), _sa), data=("in", "alloc", "alloclen"), facade="persistentreservein",
         defaults={"alloclen": 1024}, sa_name=_san)
_add("PERSISTENT RESERVE IN", "scsi_cdb_persistentreservein", "PersistentReserveIn", 0x5E,
     {"service_action": B(1, 4, 0), "alloclen": BE(7, 2)}, _PRIN, data=("in", "alloc", "alloclen"),
     defaults={"alloclen": 1024})
_add("PERSISTENT RESERVE OUT", "scsi_cdb_persistentreserveout", "PersistentReserveOut", 0x5F,
     {"service_action": B(1, 4, 0), "scope": B(2, 7, 4), "pr_type": B(2, 3, 0)},
     _k("PERSISTENT_RESERVE_OUT", ["spc", "sbc", "ssc", "smc"]), data=("out", "plist", BE(5, 4)),
     facade="persistentreserveout", defaults={"scope": 0, "pr_type": 0})
_add("EXTENDED COPY(LID1)", "scsi_cdb_extended_copy_spc4", "ExtendedCopy", 0x83, {},
     _k("EXTENDED_COPY", ["spc", "sbc", "ssc"]), sa=(B(1, 4, 0), 0x00), data=("out", "plist", BE(10, 4)),
     facade="extendedcopy4")
_add("EXTENDED COPY(LID4)", "scsi_cdb_extended_copy_spc5", "ExtendedCopy", 0x83, {},
     _k("EXTENDED_COPY", ["spc", "sbc", "ssc"]), sa=(B(1, 4, 0), 0x01), data=("out", "plist", BE(10, 4)),
     facade="extendedcopy5")
_A3 = ["spc", "sbc", "ssc", "smc"]
_add("REPORT PRIORITY", "scsi_cdb_report_priority", "ReportPriority", 0xA3,
     {"priority": B(2, 7, 6), "alloclen": BE(6, 4)}, _A3, sa=(B(1, 4, 0), 0x0E),
     data=("in", "alloc", "alloclen"), facade="reportpriority", lookup="A3",
     defaults={"priority": 0, "alloclen": 16384}, sa_name="REPORT_PRIORITY")
_add("REPORT TARGET PORT GROUPS", "scsi_cdb_report_target_port_groups", "ReportTargetPortGroups", 0xA3,
     {"data_format": B(1, 7, 5), "alloclen": BE(6, 4)}, _A3, sa=(B(1, 4, 0), 0x0A),
     data=("in", "alloc", "alloclen"), facade="reporttargetportgroups", lookup="A3",
     defaults={"data_format": 0, "alloclen": 16384}, sa_name="REPORT_TARGET_PORT_GROUPS")

# ---------------------------------------------------------------- SBC (READ/WRITE 10/12 also MMC)
_add("READ(10)", "scsi_cdb_read10", "Read10", 0x28,
     dict(_RW1, lba=BE(2, 4), group=B(6, 4, 0), tl=BE(7, 2)), _k("READ_10", ["sbc", "mmc"]),
     data=("in", "blocks", "tl"), facade="read10", extra={"blocksize": "blocksize"},
     defaults={"rdprotect": 0, "dpo": 0, "fua": 0, "rarc": 0, "group": 0})
_add("READ(12)", "scsi_cdb_read12", "Read12", 0xA8,
     dict(_RW1, lba=BE(2, 4), tl=BE(6, 4), group=B(10, 4, 0)), _k("READ_12", ["sbc", "mmc"]),
     data=("in", "blocks", "tl"), facade="read12", extra={"blocksize": "blocksize"},
     defaults={"rdprotect": 0, "dpo": 0, "fua": 0, "rarc": 0, "group": 0})
_add("READ(16)", "scsi_cdb_read16", "Read16", 0x88,
     dict(_RW1, lba=BE(2, 8), tl=BE(10, 4), group=B(14, 4, 0)), _k("READ_16", ["sbc"]),
     data=("in", "blocks", "tl"), facade="read16", extra={"blocksize": "blocksize"},
     defaults={"rdprotect": 0, "dpo": 0, "fua": 0, "rarc": 0, "group": 0})
_add("WRITE(10)", "scsi_cdb_write10", "Write10", 0x2A,
     dict(_W1, lba=BE(2, 4), group=B(6, 4, 0), tl=BE(7, 2)), _k("WRITE_10", ["sbc", "mmc"]),
     data=("out", "caller"), facade="write10", extra={"blocksize": "blocksize", "data": "data"},
     defaults={"wrprotect": 0, "dpo": 0, "fua": 0, "group": 0})
_add("WRITE(12)", "scsi_cdb_write12", "Write12", 0xAA,
     dict(_W1, lba=BE(2, 4), tl=BE(6, 4), group=B(10, 4, 0)), _k("WRITE_12", ["sbc", "mmc"]),
     data=("out", "caller"), facade="write12", extra={"blocksize": "blocksize", "data": "data"},
     defaults={"wrprotect": 0, "dpo": 0, "fua": 0, "group": 0})
_add("WRITE(16)", "scsi_cdb_write16", "Write16", 0x8A,
     dict(_W1, lba=BE(2, 8), tl=BE(10, 4), group=B(14, 4, 0)), _k("WRITE_16", ["sbc"]),
     data=("out", "caller"), facade="write16", extra={"blocksize": "blocksize", "data": "data"},
     defaults={"wrprotect": 0, "dpo": 0, "fua": 0, "group": 0})
_add("WRITE SAME(10)", "scsi_cdb_writesame10", "WriteSame10", 0x41,
     dict(_WS1, lba=BE(2, 4), group=B(6, 4, 0), nb=BE(7, 2)), _k("WRITE_SAME_10", ["sbc"]),
     data=("out", "caller"), facade="writesame10", extra={"blocksize": "blocksize", "data": "data"},
     defaults={"wrprotect": 0, "anchor": 0, "unmap": 0, "group": 0})
_add("WRITE SAME(16)", "scsi_cdb_writesame16", "WriteSame16", 0x93,
     dict(_WS1, ndob=B(1, 0), lba=BE(2, 8), nb=BE(10, 4), group=B(14, 4, 0)), _k("WRITE_SAME_16", ["sbc"]),
     data=("out", "caller-ndob"), facade="writesame16", extra={"blocksize": "blocksize", "data": "data"},
     defaults={"wrprotect": 0, "anchor": 0, "unmap": 0, "ndob": 0, "group": 0})
_add("READ CAPACITY(10)", "scsi_cdb_readcapacity10", "ReadCapacity10", 0x25, {},
     {"sbc": "READ_CAPACITY_10", "mmc": "READ_CAPACITY_10"}, data=("in", "fixed8", "alloclen"),
     facade="readcapacity10", defaults={"alloclen": 8})
_add("READ CAPACITY(16)", "scsi_cdb_readcapacity16", "ReadCapacity16", 0x9E, {"alloclen": BE(10, 4)}, ["sbc"],
     sa=(B(1, 4, 0), 0x10), data=("in", "alloc", "alloclen"), facade="readcapacity16", lookup="9E",
     defaults={"alloclen": 32}, sa_name="READ_CAPACITY_16")
_add("GET LBA STATUS", "scsi_cdb_getlbastatus", "GetLBAStatus", 0x9E, {"lba": BE(2, 8), "alloclen": BE(10, 4)},
     ["sbc"], sa=(B(1, 4, 0), 0x12), data=("in", "alloc", "alloclen"), facade="getlbastatus", lookup="9E",
     defaults={"alloclen": 16384}, sa_name="GET_LBA_STATUS")
_add("SYNCHRONIZE CACHE(10)", "scsi_cdb_synchronize_cache10", "SynchronizeCache10", 0x35,
     {"immed": B(1, 1), "lba": BE(2, 4), "group": B(6, 4, 0), "numblks": BE(7, 2)},
     {"sbc": "SYNCHRONIZE_CACHE_10", "mmc": "SYNCHRONIZE_CACHE_10"}, facade="synchronizecache10",
     defaults={"immed": 0, "group": 0})
_add("SYNCHRONIZE CACHE(16)", "scsi_cdb_synchronize_cache16", "SynchronizeCache16", 0x91,
     {"immed": B(1, 1), "lba": BE(2, 8), "numblks": BE(10, 4), "group": B(14, 4, 0)},
     _k("SYNCHRONIZE_CACHE_16", ["sbc"]), facade="synchronizecache16", defaults={"immed": 0, "group": 0})
# SAT-3 12.2.2 / 12.2.3
_add("ATA PASS-THROUGH(12)", "scsi_cdb_atapassthrough12", "ATAPassThrough12", 0xA1,
     dict(_ATA2, protocal=B(1, 4, 1), fetures=B(3, 7, 0), count=B(4, 7, 0),
          lba=[(5, 7, 0, 0), (6, 7, 0, 8), (7, 7, 0, 16)], device=B(8, 7, 0), command=B(9, 7, 0), control=B(11, 7, 0)),
     _k("ATA_PASS_THROUGH_12", ["sbc"]), data=("ata",), facade="atapassthrough12",
     extra={"blocksize": "blocksize-kw", "extra_tl": "extra_tl", "data": "data-opt"},
     defaults={"ck_cond": 0, "device": 0, "control": 0})
_add("ATA PASS-THROUGH(16)", "scsi_cdb_atapassthrough16", "ATAPassThrough16", 0x85,
     dict(_ATA2, extend=B(1, 0), protocal=B(1, 4, 1), fetures=BE(3, 2), count=BE(5, 2),
          lba=[(7, 7, 0, 24), (8, 7, 0, 0), (9, 7, 0, 32), (10, 7, 0, 8), (11, 7, 0, 40), (12, 7, 0, 16)],
          device=B(13, 7, 0), command=B(14, 7, 0), control=B(15, 7, 0)),
     _k("ATA_PASS_THROUGH_16", ["sbc"]), data=("ata",), facade="atapassthrough16",
     extra={"blocksize": "blocksize-kw", "extra_tl": "extra_tl", "data": "data-opt"},
     defaults={"ck_cond": 0, "device": 0, "control": 0, "extend": 1})

# ---------------------------------------------------------------- SMC-3
_add("EXCHANGE MEDIUM", "scsi_cdb_exchangemedium", "ExchangeMedium", 0xA6,
     {"xfer": BE(2, 2), "source": BE(4, 2), "dest1": BE(6, 2), "dest2": BE(8, 2), "inv1": B(10, 1), "inv2": B(10, 0)},
     _k("EXCHANGE_MEDIUM", ["smc"]), facade="exchangemedium", defaults={"inv1": 0, "inv2": 0})
_add("INITIALIZE ELEMENT STATUS", "scsi_cdb_initelementstatus", "InitializeElementStatus", 0x07, {},
     _k("INITIALIZE_ELEMENT_STATUS", ["smc"]), facade="initializeelementstatus")
_add("INITIALIZE ELEMENT STATUS WITH RANGE", "scsi_cdb_initelementstatuswithrange",
     "InitializeElementStatusWithRange", 0x37,
     {"fast": B(1, 1), "rng": B(1, 0), "xfer": BE(2, 2), "elements": BE(6, 2)},
     _k("INITIALIZE_ELEMENT_STATUS_WITH_RANGE", ["smc"]), facade="initializeelementstatuswithrange",
     defaults={"rng": 0, "fast": 0})
_add("MOVE MEDIUM", "scsi_cdb_movemedium", "MoveMedium", 0xA5,
     {"xfer": BE(2, 2), "source": BE(4, 2), "dest": BE(6, 2), "invert": B(10, 0)},
     _k("MOVE_MEDIUM", ["smc"]), facade="movemedium", defaults={"invert": 0})
_add("OPEN/CLOSE IMPORT/EXPORT ELEMENT", "scsi_cdb_openclose_exportimport_element", "OpenCloseImportExportElement",
     0x1B, {"xfer": BE(2, 2), "acode": B(4, 4, 0)}, _k("OPEN_CLOSE_IMPORT_EXPORT_ELEMENT", ["smc"]),
     facade="opencloseimportexportelement")
_add("POSITION TO ELEMENT", "scsi_cdb_positiontoelement", "PositionToElement", 0x2B,
     {"xfer": BE(2, 2), "dest": BE(4, 2), "invert": B(8, 0)}, _k("POSITION_TO_ELEMENT", ["smc"]),
     facade="positiontoelement", defaults={"invert": 0})
_add("READ ELEMENT STATUS", "scsi_cdb_readelementstatus", "ReadElementStatus", 0xB8,
     {"voltag": B(1, 4), "element_type": B(1, 3, 0), "start": BE(2, 2), "num": BE(4, 2), "curdata": B(6, 1),
      "dvcid": B(6, 0), "alloclen": BE(7, 3)},
     _k("READ_ELEMENT_STATUS", ["smc"]), data=("in", "alloc", "alloclen"), facade="readelementstatus",
     defaults={"element_type": 0, "voltag": 0, "curdata": 1, "dvcid": 0, "alloclen": 16384})

# ---------------------------------------------------------------- MMC-6
_add("READ CD", "scsi_cdb_readcd", "ReadCd", 0xBE,
     {"est": B(1, 4, 2), "dap": B(1, 1), "lba": BE(2, 4), "tl": BE(6, 3), "mcsb": B(9, 7, 3), "c2ei": B(9, 2, 1),
      "scsb": B(10, 2, 0)},
     _k("READ_CD", ["mmc"]), data=("in", "readcd", "tl"), facade="readcd",
     defaults={"est": 0, "dap": 0, "mcsb": 0, "c2ei": 0, "scsb": 0})
_add("READ DISC INFORMATION", "scsi_cdb_readdiscinformation", "ReadDiscInformation", 0x51,
     {"data_type": B(1, 2, 0), "alloc_len": BE(7, 2)}, _k("READ_DISC_INFORMATION", ["mmc"]),
     data=("in", "alloc", "alloc_len"), facade="readdiscinformation", defaults={"alloc_len": 4096})


# the facade looks these commands up under the *_10 key in every set; the MMC table spells them
# without the suffix (T10 MMC names the commands READ CAPACITY / SYNCHRONIZE CACHE): table key per set
TABLE_KEY = {}  # (the MMC table now also lists the *_10 names; see known_findings C13-mmc-10-byte-names)


# ------------------------------------------------------------------ oracle
def expected_cdb(spec, args, sa_value=None):
    """the CDB a standards-conformant encoder produces: list of per-byte values
    (ints or symx terms): opcode, service action, each argument at its position,
    zero elsewhere."""
    n = spec["length"]
    out = [0] * n
    out[0] = spec["opcode"]
    if spec["sa"] is not None:
        segs, v = spec["sa"]
        _place(out, segs, v if sa_value is None else sa_value)
    for name, segs in spec["fields"].items():
        if name in args:
            _place(out, segs, args[name])
    return out


def _place(out, segs, v):
    for byte, msb, lsb, src in segs:
        nb = msb - lsb + 1
        part = (v >> src) & ((1 << nb) - 1)
        out[byte] = out[byte] | (part << lsb)


def decode_cdb(spec, cdb):
    """the standards-conformant target's view: field values recovered from CDB bytes"""
    res = {}
    for name, segs in spec["fields"].items():
        res[name] = _extract(cdb, segs)
    return res


def _extract(cdb, segs):
    v = 0
    for byte, msb, lsb, src in segs:
        nb = msb - lsb + 1
        v = v | (((cdb[byte] >> lsb) & ((1 << nb) - 1)) << src)
    return v


def defined_mask(spec):
    """per byte: mask of the bits the standard defines (opcode, SA, fields we model)"""
    m = [0] * spec["length"]
    m[0] = 0xFF
    allsegs = [s for segs in spec["fields"].values() for s in segs]
    if spec["sa"] is not None:
        allsegs += spec["sa"][0]
    if spec["data"][0] == "out" and spec["data"][1] == "plist":
        allsegs += spec["data"][2]
    for byte, msb, lsb, _ in allsegs:
        m[byte] |= ((1 << (msb - lsb + 1)) - 1) << lsb
    return m
