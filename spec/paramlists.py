"""Independent builders of data-out parameter lists (oracle of C05): MODE SELECT(6/10),
PERSISTENT RESERVE OUT (basic / SPEC_I_PT / REGISTER AND MOVE), EXTENDED COPY LID1 / LID4.
Positions from SPC-4 r37 (6.16, 6.3, 6.4, 7.5, 7.6.4).  Each builder takes the *same
parameter dictionary the caller hands to the library* and returns the bytes a conformant
initiator sends, as a list of ints / symx terms."""
from .cdb_layouts import B, BE, _place
from . import responses as R


def be(v, n):
    return [(v >> (8 * (n - 1 - i))) & 0xFF for i in range(n)]


# ------------------------------------------------------------------ TransportID (SPC-4 7.6.4)
def transport_id(t):
    p = t["protocol_id"]
    fmt = t.get("tpid_format", 0) or 0
    if p == 0:
        return [0x00] + [0] * 7 + list(t["n_port_name"])[:8] + [0] * 8
    if p == 3:
        return [0x03] + [0] * 7 + list(t["eui64_name"])[:8] + [0] * 8
    if p == 4:
        return [0x04] + [0] * 7 + list(t["initiator_port_identifier"])[:16]
    if p == 6:
        return [0x06, 0, 0, 0] + list(t["sas_address"])[:8] + [0] * 12
    if p == 5:
        s = t["iscsi_name"]
        if fmt == 1:
            s = s + ",i,0x" + t["iscsi_initiator_session_id"]
        raw = list(s.encode("utf-8")) + [0]      # null-terminated ...
        while len(raw) % 4:                      # ... and padded to a multiple of four
            raw.append(0)
        return [(fmt << 6) | 0x05, 0] + be(len(raw), 2) + raw
    raise ValueError("protocol not modelled: %r" % p)


# ------------------------------------------------------------------ PERSISTENT RESERVE OUT (SPC-4 6.16.3/6.16.4)
def pr_out(service_action, kw):
    g = lambda k: kw.get(k, 0)
    if service_action == 7:  # REGISTER AND MOVE
        tid = transport_id(kw["transport_id"]) if kw.get("transport_id") else []
        flags = (g("unreg") << 1) | g("aptpl")
        return be(g("reservation_key"), 8) + be(g("service_action_reservation_key"), 8) + [0, flags] + \
            be(g("relative_target_port_id"), 2) + be(len(tid), 4) + tid
    flags = (g("spec_i_pt") << 3) | (g("all_tg_pt") << 2) | g("aptpl")
    base = be(g("reservation_key"), 8) + be(g("service_action_reservation_key"), 8) + [0, 0, 0, 0, flags, 0, 0, 0]
    if service_action == 0 and kw.get("spec_i_pt"):
        tids = []
        for t in kw.get("transport_ids", []):
            tids += transport_id(t)
        return base + be(len(tids), 4) + tids
    return base


# ------------------------------------------------------------------ MODE SELECT parameter list (SPC-4 7.5.4..)
def mode_page(mp):
    kind = {(0x0A, 0): "control", (0x0A, 1): "control-ext", (0x02, 0): "disconnect", (0x1D, 0): "element-address"}[
        (mp["page_code"], 1 if mp.get("spf") else 0)]
    code, sub, lay, size = R.MODE_PAGES[kind]
    buf = [0] * size
    for k, segs in lay.items():
        if k in mp:
            _place(buf, segs, mp[k])
    buf[0] = (mp.get("ps", 0) << 7) | (0x40 if sub is not None else 0) | code
    if sub is None:
        buf[1] = size - 2
    else:
        buf[1] = sub
        buf[2:4] = be(size - 4, 2)
    return buf


def mode_select(ten, data):
    """header + pages; MODE DATA LENGTH is reserved for MODE SELECT: both 0 and the MODE SENSE value
    (total length - 1 resp. - 2) are accepted by the check, see C05"""
    hdr = [0] * (8 if ten else 4)
    lay = R.MODE_HDR10 if ten else R.MODE_HDR6
    for k, segs in lay.items():
        if k in data:
            _place(hdr, segs, data[k])
    body = []
    for mp in data["mode_pages"]:
        body += mode_page(mp)
    return hdr + body


# ------------------------------------------------------------------ EXTENDED COPY (SPC-4 6.3 LID1, 6.4 LID4)
PDT_BLOCK = (0, 4, 5, 7, 14)


def _designation(p):
    body = designator_bytes(p["designator_type"], p["designator"])
    return [p.get("code_set", 0) & 0x0F, (p.get("association", 0) << 4) | p["designator_type"], 0, len(body)] + body


def designator_bytes(dtype, d):
    if dtype == 3:
        naa = d["naa"]
        if naa == 5 or naa == 6:
            cid, vsi = d["ieee_company_id"], d["vendor_specific_identifier"]
            b = [(naa << 4) | ((cid >> 20) & 0x0F), (cid >> 12) & 0xFF, (cid >> 4) & 0xFF, ((cid & 0x0F) << 4) | ((vsi >> 32) & 0x0F)]
            b += be(vsi & 0xFFFFFFFF, 4)
            if naa == 6:
                b += be(d["vendor_specific_identifier_extension"], 8)
            return b
        if naa == 3:
            v = d["locally_administered_value"]
            return [0x30 | ((v >> 56) & 0x0F)] + be(v & ((1 << 56) - 1), 7)
        if naa == 2:
            a, cid, vb = d["vendor_specific_identifier_a"], d["ieee_company_id"], d["vendor_specific_identifier_b"]
            return [0x20 | ((a >> 8) & 0x0F), a & 0xFF] + be(cid, 3) + be(vb, 3)
    if dtype == 2:
        cidb = be(d["ieee_company_id"], 3)
        if "identifier_extension" in d:
            return list(d["identifier_extension"]) + cidb + list(d["vendor_specific_extension_id"])
        if "directory_id" in d:
            return cidb + list(d["vendor_specific_extension_id"]) + list(d["directory_id"])
        return cidb + list(d["vendor_specific_extension_id"])
    if dtype == 1:
        return list(d["t10_vendor_id"]) + list(d["vendor_specific_id"])
    if dtype == 0:
        return list(d["vendor_specific"])
    if dtype == 8:
        return list(d["scsi_name_string"])
    if dtype == 7:
        return list(d["md5_logical_identifier"])
    if dtype == 4:
        return [0, 0] + be(d["relative_port"], 2)
    if dtype == 5:
        return [0, 0] + be(d["target_portal_group"], 2)
    if dtype == 6:
        return [0, 0] + be(d["logical_unit_group"], 2)
    raise ValueError(dtype)


def xcopy_target(t, lid):
    """identification descriptor CSCD/target descriptor (E4h), 32 bytes"""
    pkey = "target_descriptor_parameters" if lid == 1 else "cscd_descriptor_parameters"
    pdt = t["peripheral_device_type"]
    b = [0xE4, (t.get("lu_id_type", 0) << 6) | pdt] + be(t.get("relative_initiator_port_identifier", 0), 2)
    des = _designation(t[pkey])
    b += des + [0] * (24 - len(des))
    dp = t.get("device_type_specific_parameters", {})
    if pdt in (PDT_BLOCK if lid == 1 else (0, 5, 14)):
        b += [(dp.get("pad", 0) << 2)] + be(dp.get("disk_block_length", 0), 3)
    elif pdt == 1:
        b += [(dp.get("pad", 0) << 2) | dp.get("fixed", 0)] + be(dp.get("stream_block_length", 0), 3)
    elif pdt == 3:
        b += [(dp.get("pad", 0) << 2), 0, 0, 0]
    else:
        b += [0, 0, 0, 0]
    return b


def xcopy_segment(s, lid):
    sk, dk = ("source_target_descriptor_id", "destination_target_descriptor_id") if lid == 1 else \
        ("source_cscd_descriptor_id", "destination_cscd_descriptor_id")
    code = s["descriptor_type_code"]
    g = lambda k: s.get(k, 0)
    if code in (0x00, 0x0B, 0x01, 0x0C):  # block<->stream, 24 bytes
        return [code, g("cat")] + be(0x14, 2) + be(g(sk), 2) + be(g(dk), 2) + [0] + be(g("stream_device_transfer_length"), 3) + \
            [0, 0] + be(g("block_device_number_of_blocks"), 2) + be(g("block_device_logical_block_address"), 8)
    if code in (0x02, 0x0D):  # block -> block, 28 bytes
        fl = (g("dc") << 1) | g("cat")
        if lid != 1:
            fl = fl | (g("fco") << 2)
        return [code, fl] + be(0x18, 2) + be(g(sk), 2) + be(g(dk), 2) + [0, 0] + be(g("block_device_number_of_blocks"), 2) + \
            be(g("source_block_device_logical_block_address"), 8) + be(g("destination_block_device_logical_block_address"), 8)
    raise ValueError(code)


def xcopy(lid, hdr, targets, segments, inline):
    tb, sb = [], []
    for t in targets:
        tb += xcopy_target(t, lid)
    for s in segments:
        sb += xcopy_segment(s, lid)
    g = lambda k: hdr.get(k, 0)
    if lid == 1:
        h = [g("list_identifier"), (g("sequential_striped") << 5) | (g("nrcr") << 4) | g("priority")] + be(len(tb), 2) + \
            [0, 0, 0, 0] + be(len(sb), 4) + be(len(inline), 4)
    else:
        h = [0x01, (g("sequential_striped") << 5) | (g("list_id_usage") << 3) | g("priority")] + be(0x20, 2) + [0] * 11 + \
            [(g("g_sense") << 1) | g("immed"), 0xFF, 0, 0, 0] + be(g("list_identifier"), 4) + [0] * 18 + \
            be(len(tb), 2) + be(len(sb), 2) + be(len(inline), 2)
    return h + tb + sb + list(inline)
