"""Documented arguments of the facade methods, read from the docstrings of the
*current* pyscsi/pyscsi/scsi.py (documentation is part of the repository: the
property says every documented argument is accepted and reaches the CDB)."""
import inspect
import re


def documented_kwargs(method):
    """optional keyword names listed under ':param kwargs:' (``name = default`` / ``name=default`` / ``name, text``)"""
    doc = inspect.getdoc(method) or ""
    m = re.search(r":param kwargs:(.*?)(?=\n\s*:(?:param|return|returns)\b|\Z)", doc, re.S)
    if not m:
        return []
    names = []
    for line in m.group(1).splitlines():
        line = line.strip()
        mm = re.match(r"^([A-Za-z_]\w*)\s*=\s*\S+", line) or re.match(r"^([A-Za-z_]\w*),\s", line)
        if mm and mm.group(1) not in names:
            names.append(mm.group(1))
    return names


def signature_args(method):
    """(required positional names, optional names with defaults from the signature, has_kwargs)"""
    sig = inspect.signature(method)
    req, opt, kw = [], {}, False
    for n, p in sig.parameters.items():
        if n == "self":
            continue
        if p.kind == p.VAR_KEYWORD:
            kw = True
        elif p.default is p.empty:
            req.append(n)
        else:
            opt[n] = p.default
    return req, opt, kw
