"""A standards-conformant block target (oracle of C12), written from SBC-3 / SPC-4 only.

It receives exactly what the transport binding receives -- (cdb, dataout, datain) -- decodes
the CDB with the standards-only decoder of spec/cdb_layouts.py (on solver terms), and acts
on a disk whose contents are an *arbitrary function* LBA -> block: the first read of an
address yields fresh symbolic bytes, a later read of an address that may alias an earlier one
forks on equality (the solver then covers every aliasing between caller-chosen LBAs).
"""
from . import cdb_layouts as L

_BY_OPCODE = {}
for _n, _s in L.CDB.items():
    if _n.startswith("PERSISTENT RESERVE IN/") or _n.startswith("ATA"):
        continue
    _BY_OPCODE.setdefault(_s["opcode"], []).append(_s)


class Disk:
    def __init__(self, ctx, block_size):
        self.ctx, self.bs = ctx, block_size
        self.initial = []   # (lba, block) pairs of the arbitrary pre-state discovered so far
        self.writes = []    # (lba, block), most recent last
        self.n = 0

    def _lookup(self, table, lba):
        for a, blk in reversed(table):
            if a == lba:        # symbolic equality: forks when aliasing is possible but not forced
                return blk
        return None

    def read(self, lba):
        blk = self._lookup(self.writes, lba)
        if blk is not None:
            return blk
        blk = self._lookup(self.initial, lba)
        if blk is None:
            self.n += 1
            blk = list(self.ctx.bytes("disk_init_%d" % self.n, self.bs))
            self.initial.append((lba, blk))
        return blk

    def write(self, lba, blk):
        self.writes.append((lba, list(blk)))


class Target:
    def __init__(self, ctx, block_size, last_lba, identity):
        self.ctx = ctx
        self.bs = block_size
        self.last_lba = last_lba
        self.identity = identity          # 96 bytes of standard INQUIRY data
        self.disk = Disk(ctx, block_size)
        self.commands = []
        self.status = []
        self.rc16_tail = [0, 0, 0, 0]  # READ CAPACITY(16) bytes 12..15 (protection, LBPPBE, alignment): any values

    def _spec(self, cdb):
        op = cdb[0]
        cands = _BY_OPCODE.get(int(op) if not hasattr(op, "t") else self.ctx.concrete(op), [])
        for s in cands:
            if s["sa"] is None or L._extract(cdb, s["sa"][0]) == s["sa"][1]:
                return s
        return None

    def handle(self, cdb, dataout, datain):
        """returns the SAM status"""
        s = self._spec(cdb)
        if s is None or len(cdb) != s["length"]:
            self.commands.append(("ILLEGAL", None))
            return 2
        f = L.decode_cdb(s, cdb)
        name = s["name"]
        self.commands.append((name, f))
        bs = self.bs
        if name in ("READ(10)", "READ(12)", "READ(16)"):
            tl = self.ctx.concrete(f["tl"])
            for i in range(tl):
                blk = self.disk.read(f["lba"] + i)
                datain[i * bs:(i + 1) * bs] = blk
            return 0
        if name in ("WRITE(10)", "WRITE(12)", "WRITE(16)"):
            tl = self.ctx.concrete(f["tl"])
            for i in range(tl):
                self.disk.write(f["lba"] + i, dataout[i * bs:(i + 1) * bs])
            return 0
        if name in ("WRITE SAME(10)", "WRITE SAME(16)"):
            nb = self.ctx.concrete(f["nb"])
            blk = [0] * bs if (name == "WRITE SAME(16)" and self.ctx.concrete(f["ndob"])) else dataout[0:bs]
            for i in range(nb):
                self.disk.write(f["lba"] + i, blk)
            return 0
        if name in ("SYNCHRONIZE CACHE(10)", "SYNCHRONIZE CACHE(16)", "TEST UNIT READY"):
            return 0
        if name == "READ CAPACITY(10)":
            v = self.last_lba
            if v > 0xFFFFFFFE:
                v = 0xFFFFFFFF
            datain[0:8] = L.BE and [(v >> 24) & 0xFF, (v >> 16) & 0xFF, (v >> 8) & 0xFF, v & 0xFF,
                                    0, 0, (bs >> 8) & 0xFF, bs & 0xFF]
            return 0
        if name == "READ CAPACITY(16)":
            v = self.last_lba
            out = [(v >> (8 * (7 - i))) & 0xFF for i in range(8)] + [0, 0, (bs >> 8) & 0xFF, bs & 0xFF] + list(self.rc16_tail) + [0] * 16
            n = min(len(datain), 32)
            datain[0:n] = out[:n]
            return 0
        if name == "INQUIRY":
            n = min(len(datain), len(self.identity))
            datain[0:n] = list(self.identity)[:n]
            return 0
        return 0
