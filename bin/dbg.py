"""debug helper: python bin/dbg.py <cXX> <tier> <regex> [seconds]  -- runs matching obligations through the pool"""
import sys, time, re, importlib
sys.path.insert(0, '/verif')
from symx import loader; loader.install()
from symx import harness as H
mod = importlib.import_module('checks.' + sys.argv[1])
obs = [o for o in mod.obligations(sys.argv[2]) if re.search(sys.argv[3], o.name)]
dl = time.time() + (int(sys.argv[4]) if len(sys.argv) > 4 else 120)
for o in obs:
    o.timeout_s = int(sys.argv[4]) if len(sys.argv) > 4 else 120
t = time.time()
res = H.run_obligations(obs, deadline=dl)
print("total %.1fs" % (time.time() - t))
for k in sorted(res, key=lambda k: -res[k]['wall_s'])[:40]:
    v = res[k]
    print("%-50s wall=%6.1f paths=%6d %s trunc=%s viol=%s err=%s maxticks=%s" % (k, v['wall_s'], v['paths'], v['outcomes'], v['truncated'],
          [(x['label'], x.get('exc')) for x in v['violations']][:2], (v['error'] or '')[-300:], (v['stats'] or {}).get('max_ticks')))
