#!/venv/bin/python
"""copies evaluated seeded changes into /verif/seeded/<id>/ (patch.diff, demo.py, meta.json) and prints the
detection table.  usage: bin/packmutants.py <eval.json> [<eval2.json> ...]"""
import json, os, shutil, sys
V = os.path.dirname(os.path.dirname(os.path.abspath(__file__)))
rows = []
for f in sys.argv[1:]:
    ev = json.load(open(f))
    for mid, r in sorted(ev.items()):
        prop, i = mid.split("-")
        wt = "/tmp/wt_%s/seeded_out" % prop
        if r.get("wt"):
            wt, i = os.path.join(r["wt"], "seeded_out"), str(r["i"])
        if not os.path.exists(os.path.join(wt, "patch_%s.diff" % i)):
            if os.path.exists(os.path.join(V, "seeded", mid, "meta.json")):
                print("kept (worktree gone):", mid)
            continue
        if r.get("error") or r.get("demo_clean_rc") != 0 or r.get("demo_patched_rc") in (0, None) or "45 passed" not in r.get("tests", ""):
            print("SKIP (not confirmed):", mid, r.get("error"), r.get("tests"), r.get("demo_clean_rc"), r.get("demo_patched_rc"))
            continue
        d = os.path.join(V, "seeded", mid)
        os.makedirs(d, exist_ok=True)
        shutil.copy(os.path.join(wt, "patch_%s.diff" % i), os.path.join(d, "patch.diff"))
        shutil.copy(os.path.join(wt, "demo_%s.py" % i), os.path.join(d, "demo.py"))
        note = open(os.path.join(wt, "note_%s.txt" % i)).read().strip()
        old = {}
        if os.path.exists(os.path.join(d, "meta.json")):
            old = json.load(open(os.path.join(d, "meta.json")))
        checks = dict(old.get("checks_run", {}))
        checks.update({c: {"exit": v.get("rc"), "violations": v.get("violations"), "first": v.get("first", ""),
                           "harness_errors": v.get("harness_errors", [])} for c, v in r["checks"].items()})
        meta = {"id": mid, "breaks_property": prop, "source": "independent sub-agent given only the property text and a scratch worktree",
                "what_and_what_it_needs_to_manifest": note,
                "confirmed": {"existing_tests_with_patch": r["tests"], "demo_exit_on_clean_tree": r["demo_clean_rc"],
                              "demo_exit_with_patch": r["demo_patched_rc"]},
                "how_run": "git apply patch.diff in a scratch worktree of /repo HEAD; VERIF_REPO=<worktree> bin/check <id> (quick tier); worktree reverted",
                "checks_run": checks,
                "detected_by": sorted(c for c, v in checks.items() if v["exit"] == 1),
                "base_commit": os.popen("git -C /repo rev-parse --short HEAD").read().strip()}
        json.dump(meta, open(os.path.join(d, "meta.json"), "w"), indent=1)
        rows.append((mid, meta["detected_by"], {c: v["exit"] for c, v in checks.items()}))
for r in rows:
    print("%-8s detected_by=%-18s %s" % (r[0], ",".join(r[1]) or "-", r[2]))
