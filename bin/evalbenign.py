#!/venv/bin/python
"""runs every quick check against behaviour-preserving changes: bin/evalbenign.py <out.json> <worktree> [<worktree> ...]
each worktree holds benign_out/patch_i.diff (+ note_i.txt).  A VIOLATION or a non-zero exit here is a FALSE ALARM."""
import glob, json, os, subprocess, sys, time
V = os.path.dirname(os.path.dirname(os.path.abspath(__file__)))
out_path, wts = sys.argv[1], sys.argv[2:]
out = json.load(open(out_path)) if os.path.exists(out_path) else {}
checks = ["C%02d" % i for i in range(1, 20)]
for wt in wts:
    for pf in sorted(glob.glob(os.path.join(wt, "benign_out", "patch_*.diff"))):
        key = os.path.basename(wt) + "/" + os.path.basename(pf)
        if key in out:
            continue
        subprocess.run(["git", "-C", wt, "checkout", "-q", "--", "pyscsi"])
        a = subprocess.run(["git", "-C", wt, "apply", pf], capture_output=True, text=True)
        if a.returncode:
            out[key] = {"error": a.stderr[-200:]}
            continue
        t = subprocess.run(["/venv/bin/python", "-m", "pytest", "-q", "-p", "no:cacheprovider"], cwd=wt, capture_output=True, text=True)
        r = {"tests": t.stdout.strip().splitlines()[-1] if t.stdout.strip() else "?", "checks": {}}
        for c in checks:
            t0 = time.time()
            try:
                p = subprocess.run([os.path.join(V, "bin", "check"), c], cwd=V, env=dict(os.environ, VERIF_REPO=wt), capture_output=True, text=True, timeout=2400)
                lines = [l for l in p.stdout.splitlines() if not l.startswith("  obligation")]
                r["checks"][c] = {"exit": p.returncode, "alarms": [l[:300] for l in lines if l.startswith(("VIOLATION", "HARNESS-ERROR"))][:4],
                                  "inconclusive": sum(1 for l in lines if l.startswith("INCONCLUSIVE")), "wall_s": round(time.time() - t0, 1)}
            except subprocess.TimeoutExpired:
                r["checks"][c] = {"exit": "timeout", "alarms": [], "wall_s": 2400}
            if r["checks"][c]["exit"] != 0:
                print(key, c, r["checks"][c]["exit"], r["checks"][c]["alarms"][:1], flush=True)
        print(key, "done", {c: v["exit"] for c, v in r["checks"].items() if v["exit"] != 0} or "all 0", flush=True)
        subprocess.run(["git", "-C", wt, "checkout", "-q", "--", "pyscsi"])
        out[key] = r
        json.dump(out, open(out_path, "w"), indent=1)
