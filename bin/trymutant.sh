#!/bin/bash
# usage: bin/trymutant.sh <worktree> <i> <check ids...>
# applies <worktree>/seeded_out/patch_i.diff inside the worktree, confirms (tests pass, demo fails), runs the
# quick checks against that worktree (VERIF_REPO), reverts.  /repo itself is not touched.
W=$1; I=$2; shift 2
cd $W || exit 2
git checkout -q -- pyscsi 2>/dev/null
echo "--- demo on clean tree: $(/venv/bin/python seeded_out/demo_$I.py >/dev/null 2>&1; echo rc=$?)"
git apply seeded_out/patch_$I.diff || { echo "patch does not apply"; exit 2; }
echo "--- tests with patch: $(/venv/bin/python -m pytest -q -p no:cacheprovider 2>&1 | tail -1)"
echo "--- demo with patch: $(/venv/bin/python seeded_out/demo_$I.py >/dev/null 2>&1; echo rc=$?)"
for c in "$@"; do
  echo "--- check $c: $(cd /verif; VERIF_REPO=$W timeout 1500 bin/check $c 2>&1 | grep -v '^  obligation' | tail -3 | cut -c1-230)"
done
git checkout -q -- pyscsi
