#!/venv/bin/python
"""prints the markdown detection table of DESIGN.md section 9 from seeded/*/meta.json"""
import json, os, re
V = os.path.dirname(os.path.dirname(os.path.abspath(__file__)))
rows = []
for d in sorted(os.listdir(os.path.join(V, "seeded")), key=lambda s: (s.split("-")[0], int(s.split("-")[1]))):
    p = os.path.join(V, "seeded", d, "meta.json")
    if not os.path.exists(p):
        continue
    m = json.load(open(p))
    note = m["what_and_what_it_needs_to_manifest"].strip().splitlines()[0]
    note = re.sub(r"^(Change|CHANGE)\s*(\([^)]*\))?:\s*", "", note)
    det = m.get("detected_by", [])
    own = m["breaks_property"]
    others = ["%s:%s" % (c, v["exit"]) for c, v in sorted(m["checks_run"].items()) if v["exit"] != 1]
    rows.append((d, det, others, note[:170].replace("|", "/"), own in det))
import sys, io
_out = io.StringIO()
_real, sys.stdout = sys.stdout, _out
print("| change | caught by | also run, not caught (exit) | what it is (first line of the author's note) |")
print("|---|---|---|---|")
for d, det, others, note, own in rows:
    print("| %s | %s | %s | %s |" % (d, ", ".join(det) or "**none**", ", ".join(others), note))
n = len(rows)
print()
print("%d changes; %d caught by the check of their own property, %d only by another property's check, %d by none."
      % (n, sum(1 for r in rows if r[4]), sum(1 for r in rows if r[1] and not r[4]), sum(1 for r in rows if not r[1])))
sys.stdout = _real
text = _out.getvalue()
if "--update-design" in sys.argv:
    p = os.path.join(V, "DESIGN.md")
    s = open(p).read()
    a, b = s.index("<!-- seeded-table:begin -->"), s.index("<!-- seeded-table:end -->")
    s = s[:a] + "<!-- seeded-table:begin -->\n" + text.rstrip() + "\n" + s[b:]
    open(p, "w").write(s)
else:
    print(text, end="")
