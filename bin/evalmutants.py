#!/venv/bin/python
"""evaluates seeded changes: bin/evalmutants.py <plan.json> <out.json>
plan: [{"wt": "/tmp/wt_C01", "i": 1, "id": "C01-1", "checks": ["C01"]}, ...]"""
import json, os, subprocess, sys, time
plan = json.load(open(sys.argv[1]))
out = {}
if os.path.exists(sys.argv[2]):
    out = json.load(open(sys.argv[2]))
for m in plan:
    if m["id"] in out and set(m["checks"]) <= set(out[m["id"]]["checks"]):
        continue
    wt, i = m["wt"], m["i"]
    r = out.get(m["id"], {"id": m["id"], "checks": {}})
    r["wt"], r["i"] = wt, i
    subprocess.run(["git", "-C", wt, "checkout", "-q", "--", "pyscsi"])
    r["demo_clean_rc"] = subprocess.run(["/venv/bin/python", "seeded_out/demo_%d.py" % i], cwd=wt, capture_output=True).returncode
    a = subprocess.run(["git", "-C", wt, "apply", "seeded_out/patch_%d.diff" % i], capture_output=True, text=True)
    if a.returncode:
        r["error"] = "patch does not apply: " + a.stderr[-200:]
        out[m["id"]] = r
        continue
    t = subprocess.run(["/venv/bin/python", "-m", "pytest", "-q", "-p", "no:cacheprovider"], cwd=wt, capture_output=True, text=True)
    r["tests"] = t.stdout.strip().splitlines()[-1] if t.stdout.strip() else "?"
    r["demo_patched_rc"] = subprocess.run(["/venv/bin/python", "seeded_out/demo_%d.py" % i], cwd=wt, capture_output=True).returncode
    for c in m["checks"]:
        t0 = time.time()
        try:
            p = subprocess.run(["bin/check", c], cwd="/verif", env=dict(os.environ, VERIF_REPO=wt), capture_output=True, text=True, timeout=1500)
            lines = [l for l in p.stdout.splitlines() if not l.startswith("  obligation")]
            r["checks"][c] = {"rc": p.returncode, "violations": sum(1 for l in lines if l.startswith("VIOLATION")),
                              "summary": (lines[-1] if lines else "")[:200], "first": next((l for l in lines if l.startswith("VIOLATION")), "")[:200],
                              "harness_errors": [l[:160] for l in lines if l.startswith("HARNESS-ERROR")][:2], "wall": round(time.time() - t0, 1)}
        except subprocess.TimeoutExpired:
            r["checks"][c] = {"rc": "timeout", "wall": 1500}
        print(m["id"], c, r["checks"][c].get("rc"), r["checks"][c].get("violations"), flush=True)
    subprocess.run(["git", "-C", wt, "checkout", "-q", "--", "pyscsi"])
    out[m["id"]] = r
    json.dump(out, open(sys.argv[2], "w"), indent=1)
