#!/venv/bin/python
"""regenerates /verif/MANIFEST.json from the table below (kept in one place so that it stays valid)"""
import json, os
V = os.path.dirname(os.path.dirname(os.path.abspath(__file__)))
ALL = ["C%02d" % i for i in range(1, 20)]
TECH = "symbolic execution of the real /repo source on z3 bit-vector proxies (symx), per-path SMT queries, concrete replay"
CLAIMED = {
 "C09": dict(text="(a) bounded symbolic verification of sequential isolation over all ordered pairs (triples) of command classes; "
                  "(b) thread interleavings decided by an SMT partial-order encoding (z3 integer clocks, reads-from) of the "
                  "shared-memory accesses traced in solo runs through the instrumenting loader; a model is a schedule, replayed "
                  "with real threads in plain python under line-level gating.", ref="3/C09",
             note="2 threads, line-level steps, shared state = what the tracer sees (class/module attributes and objects "
                  "reachable from them); more threads and C-level state outside"),
 "C12": dict(text="Bounded symbolic verification against a standards-only target model with an arbitrary-function disk: "
                  "inductive step per facade call (symbolic probe address) plus explicit W;R / W;W;R / WS;R histories with "
                  "independent full-width symbolic LBAs (every aliasing decided by z3), over both transports' stubs.",
             ref="3/C12", note="spec/target_model.py trusted; block size <= 4 bytes, tl <= 3; protection info / cache semantics outside"),
 "C06": dict(text="Bounded symbolic verification: canonical responses from independent builders (fields symbolic); the real "
                  "marshall/unmarshall pairs run both ways; z3 decides byte equality of marshall(unmarshall(b)) with b, "
                  "dictionary equality of unmarshall(marshall(d)) with d, and single-field read-modify-write of mode pages.",
             ref="3/C06", note="spec/responses.py canonical forms; mode lists without block descriptors; <= 2 (4) descriptors"),
 "C05": dict(text="Bounded symbolic verification: MODE SELECT 6/10, PERSISTENT RESERVE OUT and EXTENDED COPY LID1/LID4 "
                  "constructors run on structurally enumerated parameter dictionaries with symbolic numeric leaves; dataout is "
                  "compared byte for byte with an independent builder and all embedded lengths with the bytes that follow.",
             ref="3/C05", note="spec/paramlists.py trusted; string contents concrete (lengths enumerated up to 223)"),
 "C04": dict(text="Bounded symbolic verification: responses laid out by independent standard-derived builders with every field "
                  "a solver variable and the structure (descriptor counts, kinds, layouts) enumerated; the real decoders run "
                  "on them and z3 decides field-by-field equality and exact descriptor counts, with symbolic trailing bytes.",
             ref="3/C04", note="spec/responses.py trusted; <= 2 descriptors per level quick / 4 thorough; two known findings "
                               "(multi-page MODE SENSE, REPORT PRIORITY) are pinned in known_findings.json"),
 "C15": dict(text="Bounded symbolic verification: SCSIDevice over stubbed open/os.stat/sgio; event sequences (keep / replace "
                  "/ remove node, close failure, CHECK CONDITION) enumerated up to k, inode values symbolic so that z3 decides "
                  "every equal/different relation; handle-inode == node-inode at send, superseded handles closed, release "
                  "exactly once.", ref="3/C15", note="k <= 3 quick / 5 thorough; TOCTOU between check and ioctl outside"),
 "C18": dict(text="Bounded symbolic verification against a dict reference model: operation kind / enumeration / name chosen by "
                  "the explorer, integer values symbolic (all equality patterns), two enumerations alive; agreement decided "
                  "by z3 after every step.", ref="3/C18", note="k <= 3 quick / 4 thorough; names outside type/metaclass attributes"),
 "C19": dict(text="Bounded symbolic verification: 4 binding-presence configurations x import of every module x reduced symbolic "
                  "C01/C02; device strings of symbolic characters (every length <= 16) for init_device / SCSIDevice / "
                  "ISCSIDevice, outcome compared with the dispatch table by z3.", ref="3/C19",
             note="blocked import stands for an uninstalled binding; 7-bit characters"),
 "C08": dict(text="Bounded symbolic verification: SCSICheckCondition/__str__/print_data on L symbolic sense bytes (table "
                  "look-ups fork on hit/miss), plus exact-entry exploration of all sense keys and all ASC/ASCQ table "
                  "entries; z3 decides per path 'never raises', SPC-4 positions of key/ASC/ASCQ, T10 text for the "
                  "independent subset.", ref="3/C08",
             note="text oracle = 155 ASC/ASCQ codes + 15 sense keys (partial sub-claim); lengths: 14 values quick, 1..252 thorough"),
 "C11": dict(text="Bounded exhaustive symbolic path exploration: every decoder on N fully symbolic bytes for each N in the "
                  "bound under a step budget proportional to N; all feasible paths are enumerated with z3 deciding each "
                  "data-dependent branch/slice bound; budget overruns are replayed concretely under a line counter.",
             ref="3/C11", note="N <= 20 quick (12 for VPD 83h), <= 32 thorough (16 for VPD 83h); hangs needing longer "
                               "buffers are outside; text decoding over-approximated"),
 "C13": dict(text="Bounded symbolic verification: every facade method x defining set x subsets of its documented optional "
                  "keyword arguments (parsed from the current docstrings), argument values and device-written payload "
                  "symbolic; z3 decides CDB positions/defaults and that cmd.result equals an independent decode of the "
                  "device-left bytes.", ref="3/C13",
             note="one small well-formed response per command (<= 64 symbolic bytes); recording device"),
 "C07": dict(text="Bounded symbolic verification of both real device classes and all 38 facade methods over stub bindings: the "
                  "status byte (all 256 values), the binding outcome and every sense byte are solver variables; per path z3 "
                  "decides 'normal return => GOOD', CheckCondition carries the target's key/ASC/ASCQ, named errors, no "
                  "result decoded from garbage.", ref="3/C07",
             note="stub bindings' contracts (stubs/env.py); sense <= 18 bytes quick / 252 thorough; <= 3 preceding commands"),
 "C16": dict(text="Bounded symbolic verification: INQUIRY byte 0 of every attached device symbolic (256 values), attach "
                  "histories of length <= 3 over plain and real device objects; selection decided per path by z3.",
             ref="3/C16", note="stub bindings; type->set table is the property's"),
 "C17": dict(text="Bounded symbolic verification: every refusal class through the facade with all other arguments symbolic and "
                  "the refused quantity ranging over its invalid domain; the solver decides path feasibility, i.e. that no "
                  "feasible path returns or reaches the device.", ref="3/C17",
             note="recording device stands for any transport; one descriptor per EXTENDED COPY list"),
 "C01": dict(text="Bounded symbolic verification of the real constructors and facade methods: every CDB argument is a solver "
                  "variable of its full field width; each emitted byte is compared with an independently transcribed "
                  "layout by an unsat query. All values within field widths are covered; structure (42+ classes x defining "
                  "sets x 2 entry points) is enumerated.",
             ref="3/C01", note="spec/cdb_layouts.py (transcription of SPC/SBC/SMC/MMC/SAT tables) is trusted; parameter "
                               "list contents fixed here (C05)"),
 "C02": dict(text="Bounded symbolic verification: all fields jointly symbolic for unmarshall(marshall(d))==d, all CDB byte "
                  "strings with undefined bits 0 for marshall(unmarshall(b))==b, plus a structural bit-set comparison with "
                  "the standard's layout.", ref="3/C02",
             note="single-threaded, no other command in between (C09 covers isolation); spec/cdb_layouts.py trusted"),
 "C03": dict(text="Bounded symbolic verification: sizes/flags symbolic, buffer lengths as solver terms; announced transfer "
                  "decoded from the emitted CDB; ATA size rules explored over all flag combinations; both transports over "
                  "stub bindings.", ref="3/C03", note="stub bindings (stubs/env.py) stand for cython-sgio/cython-iscsi"),
 "C14": dict(text="init_cdb executed on a symbolic opcode (every path decided by z3 against the SAM group rule); the finite "
                  "code tables compared, as finite functions in the solver, with an independent T10 transcription "
                  "(complete for the tables).", ref="3/C14",
             note="spec/t10_codes.py trusted; SCC-2 service actions are oracle gaps"),
 "C10": dict(text="Bounded symbolic verification: converter.py runs on solver variables including a symbolic contiguous "
                  "mask; every algebraic law is an unsat query per path. Holds for all values inside the stated bounds "
                  "(mask <= 264 bits, buffers <= 38 bytes); not a proof beyond them.",
             ref="3/C10", note="z3 BV semantics; symx value domain (validated per run by differential self-test and the "
                               "repo tests under instrumentation); masks with holes outside the claim"),
}
NA_REASON = "check not built yet in this round (planned: see DESIGN.md section 3); not claimed until its check exists"

def main():
    checks = []
    for p in ALL:
        if p in CLAIMED:
            c = CLAIMED[p]
            checks.append({
                "property_id": p,
                "quick_cmd": "bin/check %s --tier quick" % p,
                "thorough_cmd": "bin/check %s --tier thorough" % p,
                "evidence_file": "evidence/%s.json" % p,
                "replay_cmd_template": "/venv/bin/python bin/replay.py {path}",
                "engine": "symx",
                "level_claimed": {"category": "other", "text": c["text"], "design_ref": c["ref"]},
                "level_note": c["note"],
                "technique": c.get("technique", TECH),
            })
    m = {
        "version": 1,
        "setup_cmd": "bin/setup",
        "hooks": {"guard": "PYSCSI_VERIF", "enable": "no source hooks are needed: the checks load /repo's working tree "
                  "through an instrumenting import hook (symx/loader.py); the guard is unused",
                  "baseline_off_cmd": "cd /repo && /venv/bin/python -m pytest -ra -q -p no:cacheprovider --timeout=900 --continue-on-collection-errors",
                  "source_commits": json.load(open(os.path.join(V, "fix_commits.json"))) if os.path.exists(os.path.join(V, "fix_commits.json")) else [],
                  "add_only": True},
        "engines": [{"name": "symx", "path": "symx/", "serves_properties": sorted(CLAIMED),
                     "kind_free_text": "custom symbolic executor for Python: AST-instrumenting import hook + "
                                       "width-tracked signed bit-vector proxies + DART-style path exploration over z3 5.1"}],
        "checks": checks,
        "not_applicable": [{"property_id": p, "reason": NA_REASON} for p in ALL if p not in CLAIMED],
        "notes": "exit codes: 0 no unlisted violation; 1 replay-confirmed VIOLATION; 3 harness error (never a verdict)",
    }
    json.dump(m, open(os.path.join(V, "MANIFEST.json"), "w"), indent=1)

if __name__ == "__main__":
    main()
