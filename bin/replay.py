#!/venv/bin/python
"""Concrete replay of a counterexample against the UNINSTRUMENTED library.
usage: replay.py <replay.json>      exit 1 = the recorded failure reproduces, 0 = it does not, 2 = usage/error
Runs in plain /venv/bin/python: no z3, no instrumentation."""
import importlib
import json
import os
import sys

VERIF = os.path.dirname(os.path.dirname(os.path.abspath(__file__)))
sys.path.insert(0, VERIF)
sys.dont_write_bytecode = True


def main():
    if len(sys.argv) != 2:
        print("usage: replay.py <replay.json>")
        return 2
    doc = json.load(open(sys.argv[1]))
    repo = os.environ.get("VERIF_REPO", "/repo")
    sys.path.insert(0, repo)
    for m in [m for m in sys.modules if m == "pyscsi" or m.startswith("pyscsi.")]:
        del sys.modules[m]
    try:
        import resource
        resource.setrlimit(resource.RLIMIT_AS, (4 << 30, 4 << 30))
    except Exception:
        pass
    from symx.ctx import ConcreteCtx, Skip
    mod = importlib.import_module(doc["module"])
    fn = getattr(mod, doc["func"])
    ctx = ConcreteCtx(doc["inputs"] or {}, doc.get("deviations") or ())
    kind = doc.get("kind", "check")
    lines = [0]
    cap = None
    if kind == "budget":
        cap = max(200000, 400 * int(doc.get("tick_budget") or 1000))

        class _Over(BaseException):
            pass

        def tracer(frame, event, arg):
            if event == "line" and repo in frame.f_code.co_filename:
                lines[0] += 1
                if lines[0] > cap:
                    raise _Over()
            return tracer
        sys.settrace(tracer)
    try:
        try:
            fn(ctx, **doc["params"])
        finally:
            sys.settrace(None)
    except Skip as e:
        print("replay: skipped (%s)" % e)
        return 0
    except MemoryError:
        if kind == "budget":
            print("REPRODUCED: memory exhausted (unbounded allocation)")
            return 1
        raise
    except BaseException as e:
        if kind == "budget" and type(e).__name__ == "_Over":
            print("REPRODUCED: more than %d source lines executed in repo code without terminating "
                  "(tick budget %s)" % (cap, doc.get("tick_budget")))
            return 1
        if kind == "exception" and type(e).__name__ == doc.get("exc"):
            print("REPRODUCED: %s: %s" % (type(e).__name__, e))
            return 1
        if isinstance(e, Exception):
            print("replay: harness raised %s: %s (recorded failure: %s %s)" % (type(e).__name__, e, kind, doc.get("exc")))
            if kind == "exception":
                return 0
            # a check-kind counterexample that instead crashes the harness still shows a failure of the
            # no-unexpected-exception obligation of the same harness
            return 1
        raise
    if kind == "check" and doc["label"] in ctx.failures:
        print("REPRODUCED: check '%s' fails on the real code with inputs %s" % (doc["label"], json.dumps(doc["inputs"])[:300]))
        return 1
    print("not reproduced: failures=%s" % ctx.failures[:5])
    return 0


if __name__ == "__main__":
    sys.exit(main())
