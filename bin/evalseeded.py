#!/venv/bin/python
"""re-evaluates the seeded changes kept under /verif/seeded against the current checks.

  bin/evalseeded.py [--jobs N] [--only REGEX] [--all-own]

For each seeded/<id>/: a scratch worktree of /repo HEAD (under /tmp, removed at the end), `git apply patch.diff`,
the repository's own tests (must still pass), demo.py (must pass on the clean tree and fail with the patch), then
the quick tier of the property's own check and of every check recorded earlier for this change, with
VERIF_REPO=<worktree>.  /repo itself is never touched.  meta.json is refreshed (checks_run, detected_by)."""
import json, os, re, subprocess, sys, time
from concurrent.futures import ThreadPoolExecutor

V = os.path.dirname(os.path.dirname(os.path.abspath(__file__)))
jobs = 2
only = "."
args = sys.argv[1:]
while args:
    a = args.pop(0)
    if a == "--jobs":
        jobs = int(args.pop(0))
    elif a == "--only":
        only = args.pop(0)
ids = sorted(d for d in os.listdir(os.path.join(V, "seeded")) if re.search(only, d) and os.path.exists(os.path.join(V, "seeded", d, "patch.diff")))
test_cmd = json.load(open("/root/.vp/BASELINE.json")) if os.path.exists("/root/.vp/BASELINE.json") else {}


def sh(cmd, **kw):
    return subprocess.run(cmd, capture_output=True, text=True, **kw)


def work(slot, mids):
    wt = "/tmp/wt_evalseeded_%d" % slot
    sh(["git", "-C", "/repo", "worktree", "remove", "--force", wt])
    r = sh(["git", "-C", "/repo", "worktree", "add", "--detach", wt, "HEAD"])
    if r.returncode:
        print("cannot create worktree:", r.stderr)
        return
    try:
        for mid in mids:
            d = os.path.join(V, "seeded", mid)
            meta = json.load(open(os.path.join(d, "meta.json")))
            sh(["git", "-C", wt, "checkout", "-q", "--", "."])
            clean = sh(["/venv/bin/python", os.path.join(d, "demo.py")], cwd=wt, env=dict(os.environ, PYTHONPATH=wt)).returncode
            a = sh(["git", "-C", wt, "apply", os.path.join(d, "patch.diff")])
            if a.returncode:
                meta["stale"] = "patch no longer applies to /repo HEAD: " + a.stderr[-200:]
                json.dump(meta, open(os.path.join(d, "meta.json"), "w"), indent=1)
                print(mid, "PATCH DOES NOT APPLY", flush=True)
                continue
            meta.pop("stale", None)
            t = sh(["/venv/bin/python", "-m", "pytest", "-q", "-p", "no:cacheprovider"], cwd=wt)
            tests = t.stdout.strip().splitlines()[-1] if t.stdout.strip() else "?"
            patched = sh(["/venv/bin/python", os.path.join(d, "demo.py")], cwd=wt, env=dict(os.environ, PYTHONPATH=wt)).returncode
            meta["confirmed"] = {"existing_tests_with_patch": tests, "demo_exit_on_clean_tree": clean, "demo_exit_with_patch": patched}
            prop = meta["breaks_property"]
            checks = [prop] + [c for c in sorted(meta.get("checks_run", {})) if c != prop]
            run = {}
            for c in checks:
                t0 = time.time()
                try:
                    p = sh([os.path.join(V, "bin", "check"), c], cwd=V, env=dict(os.environ, VERIF_REPO=wt), timeout=2400)
                    lines = [l for l in p.stdout.splitlines() if not l.startswith("  obligation")]
                    run[c] = {"exit": p.returncode, "violations": sum(1 for l in lines if l.startswith("VIOLATION")),
                              "first": next((l for l in lines if l.startswith("VIOLATION")), "")[:200],
                              "harness_errors": [l[:160] for l in lines if l.startswith("HARNESS-ERROR")][:2],
                              "inconclusive": sum(1 for l in lines if l.startswith("INCONCLUSIVE")),
                              "wall_s": round(time.time() - t0, 1)}
                except subprocess.TimeoutExpired:
                    run[c] = {"exit": "timeout", "violations": None, "first": "", "harness_errors": [], "wall_s": 2400}
                print(mid, c, run[c]["exit"], run[c]["violations"], run[c]["wall_s"], flush=True)
            meta["checks_run"] = run
            meta["detected_by"] = sorted(c for c, v in run.items() if v["exit"] == 1)
            meta["base_commit"] = sh(["git", "-C", "/repo", "rev-parse", "--short", "HEAD"]).stdout.strip()
            meta["verif_commit"] = sh(["git", "-C", V, "rev-parse", "--short", "HEAD"]).stdout.strip()
            json.dump(meta, open(os.path.join(d, "meta.json"), "w"), indent=1)
    finally:
        sh(["git", "-C", wt, "checkout", "-q", "--", "."])
        sh(["git", "-C", "/repo", "worktree", "remove", "--force", wt])
        sh(["git", "-C", "/repo", "worktree", "prune"])


with ThreadPoolExecutor(jobs) as ex:
    list(ex.map(lambda k: work(k, ids[k::jobs]), range(jobs)))
