"""A plain recording device object (any object with opcodes/devicetype/execute works
with the facade).  z3-free: used symbolically and in concrete replays."""


class RecDevice:
    def __init__(self, opcodes=None, on_execute=None):
        if opcodes is None:
            from pyscsi.pyscsi.scsi_enum_command import spc
            opcodes = spc
        self.opcodes = opcodes
        self.devicetype = None
        self.executed = []
        self.raw_flags = []
        self.on_execute = on_execute
        self.closed = 0

    def execute(self, cmd, en_raw_sense=False):
        self.executed.append(cmd)
        self.raw_flags.append(en_raw_sense)
        if self.on_execute:
            self.on_execute(self, cmd)

    def close(self):
        self.closed += 1
