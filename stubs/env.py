"""Nondeterministic environment for the transports (z3-free; drives symbolic runs and
concrete replays alike through the harness ctx).

  sgio   (cython-sgio):  execute(file, cdb, dataout, datain, ...) returns, or raises
         CheckConditionError(sense) / UnspecifiedError / OSError -- chosen by the scenario
  iscsi  (cython-iscsi): Context / URL / Task with an arbitrary 8-bit status and sense
  open / os.stat as seen from pyscsi.pyscsi.scsi_device

A scenario is a python object with callbacks; every call is appended to env.log.
Contracts assumed (part of every claim that uses the stubs):
  * sgio.execute raises CheckConditionError exactly when the target returned CHECK CONDITION,
    carrying the sense bytes; other failures raise UnspecifiedError/OSError; it never
    returns normally for a non-GOOD status.  On success it returns the residual count of the
    transfer -- an arbitrary non-negative integer here (ENV.sgio_return, symbolic in C03/C13).
  * libiscsi sets task.status to the SAM status byte; task.raw_sense exists when status
    is CHECK CONDITION (a second configuration without it is exercised separately).
"""
import sys
import types


class Handle:
    def __init__(self, env, name, mode, inode, buffering):
        self.env, self.name, self.mode, self.inode, self.buffering = env, name, mode, inode, buffering
        self.close_calls = 0
        self.close_raises = False

    def close(self):
        self.close_calls += 1
        self.env.log.append(("close", self))
        if self.close_raises:
            raise OSError("close failed (stub)")

    def fileno(self):
        return 3

    def __repr__(self):
        return "<Handle %s ino=%r closed=%d>" % (self.name, self.inode, self.close_calls)


class CheckConditionError(Exception):
    def __init__(self, sense):
        Exception.__init__(self, "CHECK CONDITION")
        self.sense = sense


class UnspecifiedError(Exception):
    pass


class Env:
    def __init__(self):
        self.reset()

    def reset(self, scenario=None):
        self.log = []
        self.scenario = scenario
        self.cur_inode = 1  # inode at the device path right now; None = node absent
        self.handles = []
        self.sgio_calls = []
        self.iscsi_tasks = []
        self.iscsi_contexts = []
        self.iscsi_urls = []
        self.opens = []
        self.lun = 0            # LUN the URL stub reports (may be a solver variable)
        self.open_error = None  # exception the next open() raises (consumed), e.g. PermissionError
        self.open_error_sticky = False  # keep raising open_error on every open() until it is cleared
        self.flicker_after_open = False  # one-shot: the stat that follows the next successful open() fails
        self.stat_fails_once = False
        self.sgio_return = 0    # what sgio.execute returns on success (cython-sgio: the residual count; may be symbolic)

    # ---- filesystem
    def open(self, name, mode="r", buffering=-1, **kw):
        self.log.append(("open", name, mode))
        self.opens.append((name, mode, buffering))
        if self.open_error is not None:
            e = self.open_error
            if not self.open_error_sticky:
                self.open_error = None
            raise e
        if self.cur_inode is None:
            raise FileNotFoundError(2, "No such file or directory", name)
        h = Handle(self, name, mode, self.cur_inode, buffering)
        self.handles.append(h)
        if self.flicker_after_open:
            # the node disappears right after this open (the next stat fails once), then it is back
            self.flicker_after_open = False
            self.stat_fails_once = True
        return h

    def stat(self, name, *a, **k):
        self.log.append(("stat", name))
        if self.stat_fails_once:
            self.stat_fails_once = False
            raise FileNotFoundError(2, "No such file or directory (stub: node flickered)", name)
        if self.cur_inode is None:
            raise FileNotFoundError(2, "No such file or directory", name)
        return types.SimpleNamespace(st_ino=self.cur_inode)

    # ---- sgio
    def sgio_execute(self, file, cdb, dataout, datain, *a, **k):
        call = types.SimpleNamespace(file=file, cdb=cdb, dataout=dataout, datain=datain,
                                     inode_at_send=self.cur_inode)
        self.sgio_calls.append(call)
        self.log.append(("sgio.execute", call))
        if self.scenario is not None and hasattr(self.scenario, "sgio"):
            r = self.scenario.sgio(self, call)
            return self.sgio_return if (r is None or (type(r) is int and r == 0)) else r
        return self.sgio_return

    # ---- iscsi
    def iscsi_command(self, context, lun, task, dataout, datain):
        task.lun, task.dataout, task.datain, task.context = lun, dataout, datain, context
        self.iscsi_tasks.append(task)
        self.log.append(("iscsi.command", task))
        task.status = 0
        if self.scenario is not None and hasattr(self.scenario, "iscsi"):
            self.scenario.iscsi(self, task)


ENV = Env()

# ------------------------------------------------------------------ module objects
sgio = types.ModuleType("sgio")
sgio.CheckConditionError = CheckConditionError
sgio.UnspecifiedError = UnspecifiedError
sgio.execute = lambda file, cdb, dataout, datain, *a, **k: ENV.sgio_execute(file, cdb, dataout, datain, *a, **k)

iscsi = types.ModuleType("iscsi")
iscsi.SCSI_XFER_NONE, iscsi.SCSI_XFER_READ, iscsi.SCSI_XFER_WRITE = 0, 1, 2
iscsi.ISCSI_SESSION_DISCOVERY, iscsi.ISCSI_SESSION_NORMAL = 1, 2
iscsi.ISCSI_HEADER_DIGEST_NONE, iscsi.ISCSI_HEADER_DIGEST_NONE_CRC32C = 0, 1
iscsi.ISCSI_HEADER_DIGEST_CRC32C_NONE, iscsi.ISCSI_HEADER_DIGEST_CRC32C = 2, 3


class Context:
    def __init__(self, initiator_name):
        self.initiator_name = initiator_name
        self.calls = []
        ENV.iscsi_contexts.append(self)
        ENV.log.append(("iscsi.Context", initiator_name))

    def set_targetname(self, t):
        self.calls.append(("set_targetname", t))

    def set_session_type(self, t):
        self.calls.append(("set_session_type", t))

    def set_header_digest(self, d):
        self.calls.append(("set_header_digest", d))

    def connect(self, portal, lun):
        self.calls.append(("connect", portal, lun))
        ENV.log.append(("iscsi.connect", portal, lun))

    def disconnect(self):
        self.calls.append(("disconnect",))
        ENV.log.append(("iscsi.disconnect", self))

    def command(self, lun, task, dataout, datain):
        ENV.iscsi_command(self, lun, task, dataout, datain)


class URL:
    def __init__(self, context, url):
        self.context, self.url = context, url
        ENV.iscsi_urls.append(self)
        ENV.log.append(("iscsi.URL", url))
        self.portal = "portal-of:" + str(url)
        self.target = "target-of:" + str(url)
        self.lun = ENV.lun


class Task:
    def __init__(self, cdb, dir, xferlen):
        self.cdb, self.dir, self.xferlen = cdb, dir, xferlen
        self.status = 0
        # raw_sense is set by the scenario when the target sends sense data


iscsi.Context, iscsi.URL, iscsi.Task = Context, URL, Task

fake_os = types.SimpleNamespace(stat=lambda name, *a, **k: ENV.stat(name, *a, **k))


def install(have_sgio=True, have_iscsi=True):
    """make the stub bindings importable and (re)load the two device modules against them"""
    for m in ("pyscsi.pyscsi.scsi_device", "pyscsi.pyiscsi.iscsi_device", "pyscsi.pyiscsi"):
        sys.modules.pop(m, None)
    for name, mod, have in (("sgio", sgio, have_sgio), ("iscsi", iscsi, have_iscsi)):
        if have:
            sys.modules[name] = mod
        else:
            sys.modules[name] = None  # import raises ImportError
    import pyscsi.pyscsi.scsi_device as sd
    import pyscsi.pyiscsi.iscsi_device as idv
    sd.open = lambda name, mode="r", buffering=-1, **kw: ENV.open(name, mode, buffering, **kw)
    sd.os = fake_os
    return sd, idv
