"""C11 -- decoding device data always terminates, whatever the bytes.

Every response / sense decoder runs on N fully symbolic bytes, for every N up to the
bound, under a step budget proportional to N (steps = loop iterations and function
entries in the instrumented repo code).  The explorer covers *all* paths: slice
bounds taken from the buffer fork on min(value, len).  A path that exhausts the
budget yields a concrete buffer from the solver's model, which is replayed against
the uninstrumented decoder under a line counter with a hard cap."""
from symx.ctx import Skip

MOD = "checks.c11"


def budget(n):
    return 40 * n + 400


def _decoders():
    from pyscsi.pyscsi import scsi_cdb_persistentreservein as prin
    from pyscsi.pyscsi.scsi_cdb_getlbastatus import GetLBAStatus
    from pyscsi.pyscsi.scsi_cdb_inquiry import Inquiry
    from pyscsi.pyscsi.scsi_cdb_modesense6 import ModeSense6
    from pyscsi.pyscsi.scsi_cdb_modesense10 import ModeSense10
    from pyscsi.pyscsi.scsi_cdb_readcapacity10 import ReadCapacity10
    from pyscsi.pyscsi.scsi_cdb_readcapacity16 import ReadCapacity16
    from pyscsi.pyscsi.scsi_cdb_readcd import ReadCd
    from pyscsi.pyscsi.scsi_cdb_readdiscinformation import ReadDiscInformation
    from pyscsi.pyscsi.scsi_cdb_readelementstatus import ReadElementStatus
    from pyscsi.pyscsi.scsi_cdb_report_luns import ReportLuns
    from pyscsi.pyscsi.scsi_cdb_report_priority import ReportPriority
    from pyscsi.pyscsi.scsi_cdb_report_target_port_groups import ReportTargetPortGroups
    from pyscsi.pyscsi.scsi_sense import SCSICheckCondition

    def sense(buf, print_data=False):
        e = SCSICheckCondition(buf, print_data=print_data)
        return str(e)

    def desig(buf, t):
        return Inquiry.unmarshall_designator(t, buf)

    d = {
        "inquiry-standard": (Inquiry.unmarshall_datain, {"evpd": 0}),
        "inquiry-vpd": (Inquiry.unmarshall_datain, {"evpd": 1}),
        "modesense6": (ModeSense6.unmarshall_datain, {}),
        "modesense10": (ModeSense10.unmarshall_datain, {}),
        "readcapacity10": (ReadCapacity10.unmarshall_datain, {}),
        "readcapacity16": (ReadCapacity16.unmarshall_datain, {}),
        "getlbastatus": (GetLBAStatus.unmarshall_datain, {}),
        "reportluns": (ReportLuns.unmarshall_datain, {}),
        "reportpriority": (ReportPriority.unmarshall_datain, {}),
        "rtpg": (ReportTargetPortGroups.unmarshall_datain, {}),
        "readelementstatus": (ReadElementStatus.unmarshall_datain, {}),
        "prin-readkeys": (prin.PersistentReserveInReadKeys.unmarshall_datain, {}),
        "prin-readreservation": (prin.PersistentReserveInReadReservation.unmarshall_datain, {}),
        "prin-reportcapabilities": (prin.PersistentReserveInReportCapabilities.unmarshall_datain, {}),
        "prin-readfullstatus": (prin.PersistentReserveInReadFullStatus.unmarshall_datain, {}),
        "transport-id": (prin.PersistentReserveInReadFullStatus.unmarshall_transport_id, {}),
        "readdiscinformation": (ReadDiscInformation.unmarshall_datain, {}),
        "sense": (sense, {}),
        "sense-print": (sense, {"print_data": True}),
    }
    for t in range(0, 10):
        d["designator-%d" % t] = (desig, {"t": t})
    for tl in (1, 2):
        for est, mcsb, c2ei, scsb in ((1, 0x1F, 1, 2), (2, 0x1F, 2, 4), (4, 0x1F, 0, 2), (5, 0x0B, 1, 0), (3, 0x0E, 0, 4),
                                      (0, 0x1F, 2, 2)):
            d["readcd-tl%d-est%d-mcsb%02x-c2ei%d-scsb%d" % (tl, est, mcsb, c2ei, scsb)] = (
                ReadCd.unmarshall_datain, {"lba": 3, "tl": tl, "est": est, "mcsb": mcsb, "c2ei": c2ei, "scsb": scsb})
    return d


VPD_PAGES = [0x00, 0x80, 0x83, 0x86, 0x89, 0xB0, 0xB1, 0xB2, 0xB3]


def h_decode(ctx, dec, n, pin=None):
    from symx import rt
    fn, kw = _decoders()[dec.split("@")[0]]
    buf = ctx.bytes("buf", n)
    if pin == "other-page":
        # any page code the library has no decoder for
        if n > 1:
            for p in VPD_PAGES:
                ctx.assume(buf[1] != p)
    elif pin:
        for i, v in pin:
            if i < n:
                buf[i] = v
    if ctx.symbolic:
        rt.ALLOC_LOG = []
    try:
        st, r = ctx.attempt(fn, buf, **kw)
        allocs = list(rt.ALLOC_LOG or []) if ctx.symbolic else []
    finally:
        if ctx.symbolic:
            rt.ALLOC_LOG = None
    # returning or raising is fine -- the budget (enforced by the explorer / the replay's line counter) is the property
    ctx.check("returns or raises", st in ("ok", "exc"))
    for kind, size in allocs:
        ctx.check("allocation sized by device bytes stays proportional to the buffer (%s)" % kind, size <= 64 * n + 64)


def obligations(tier):
    from symx.harness import Ob
    from symx import loader
    loader.install()
    obs = []
    decs = dict(_decoders())
    vpd = decs.pop("inquiry-vpd")
    flat = {"inquiry-standard", "readcapacity10", "readcapacity16", "prin-readreservation", "prin-reportcapabilities",
            "readdiscinformation"}
    q = tier == "quick"
    plan = []
    for dec in decs:
        if dec.startswith("readcd"):
            ns = [0, 13, 40] if q else [0, 1, 12, 13, 40, 64]
        elif dec.startswith("sense"):
            ns = [1, 2, 3, 4, 8, 13, 14, 18, 32] if q else list(range(1, 41)) + [64, 96, 252]
        elif dec in flat or dec.startswith("designator"):
            ns = [0, 1, 8, 17, 20, 32] if q else list(range(0, 41)) + [64, 96]
        elif dec == "readelementstatus":
            ns = [0, 4, 8, 12, 16, 18, 20, 24, 25] if q else list(range(0, 29))
        elif dec == "prin-readfullstatus":
            ns = [0, 1, 4, 8, 12, 16, 20, 24, 33, 40, 56] if q else list(range(0, 41)) + [48, 56, 64]
        else:
            ns = [0, 1, 4, 8, 12, 16, 20, 24] if q else list(range(0, 33))
        plan.append((dec, None, ns))
    for p in VPD_PAGES:
        if p == 0x83:
            ns = [0, 2, 4, 8, 10, 12] if q else list(range(0, 17))
        else:
            ns = [0, 3, 4, 5, 8, 20, 64] if q else list(range(0, 33)) + [64, 96]
        plan.append(("inquiry-vpd@%02x" % p, [[1, p]], ns))
    plan.append(("inquiry-vpd@other", "other-page", [0, 1, 2, 4, 8, 20] if q else list(range(0, 33))))
    for dec, pin, ns in plan:
        for n in ns:
            obs.append(Ob("%s/N=%d" % (dec, n), MOD, "h_decode", {"dec": dec, "n": n, "pin": pin}, tick_budget=budget(n),
                          allow_opaque=True, abstract_dicts=True, split=True, canary=False, max_paths=2000000,
                          timeout_s=600 if q else 3000))
    return obs


INFO = {
    "explanation": "Each of the decoders listed runs on N symbolic bytes for every N in the bound with a step budget of "
                   "40*N+400 instrumented steps; the explorer enumerates every feasible path (z3 decides feasibility at each "
                   "data-dependent branch and slice bound); a path exceeding the budget is a candidate non-termination: "
                   "its model is replayed on the real code under a line counter. Allocations sized by device bytes are "
                   "intercepted and must be provably <= 64*N+64.",
    "functions": ["unmarshall_datain of Inquiry (standard + all VPD pages), ModeSense6/10, ReadCapacity10/16, GetLBAStatus, "
                  "ReportLuns, ReportPriority, ReportTargetPortGroups, ReadElementStatus, PersistentReserveIn*(4), "
                  "ReadDiscInformation, ReadCd", "PersistentReserveInReadFullStatus.unmarshall_transport_id",
                  "Inquiry.unmarshall_designator (10 designator types)", "SCSICheckCondition.__init__/__str__/print_data",
                  "converter.decode_bits/scsi_ba_to_int"],
    "bounds": {"N": "quick: a spread of lengths up to 20 (40 for READ CD); thorough: every N in 0..32 for nested formats "
               "(0..28 READ ELEMENT STATUS), 0..40 for flat ones", "READ CD": "tl <= 2, six sector-layout configurations",
               "budget": "40*N+400 steps (steps = loop iterations + function entries in repo code)"},
    "outside": ["a hang that needs more than N_max bytes to set up", "READ CD with more than two sectors",
                "text decoding of symbolic bytes is over-approximated (valid / invalid UTF-8, 1..3 split parts)"],
    "assumptions": ["tick instrumentation counts every loop iteration of repo code (loader.py)"],
}
