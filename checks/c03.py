"""C03 -- data buffers match the transfer the CDB announces.

The announced transfer is decoded from the *emitted* CDB with the standards-only
decoder of spec/cdb_layouts.py and compared with the buffers of the command
object; then the same command goes through the real SCSIDevice.execute and
ISCSIDevice.execute over stub bindings, which must receive exactly these buffers
(and, for iSCSI, the matching direction / transfer length)."""
from spec import cdb_layouts as L
from symx.ctx import Skip

from . import common as K

MOD = "checks.c03"


def blen(buf):
    """length of a byte buffer; symbolic for zero buffers of symbolic length; TypeError for non-buffers"""
    if hasattr(buf, "sym_len"):
        return buf.sym_len()
    return len(buf)


def _is_buffer(buf):
    return hasattr(buf, "sym_len") or isinstance(buf, (bytes, bytearray))


def _announced(ctx, spec, c, args, extra):
    """(direction, length) the CDB announces, decoded from the emitted bytes"""
    dec = L.decode_cdb(spec, c.cdb)
    kind = spec["data"]
    if kind[0] == "none":
        return "none", 0
    if kind[:2] == ("in", "alloc"):
        a = dec[kind[2]]
        ctx.check("allocation length in the CDB is the caller's", a == ctx.oracle(args[kind[2]]))
        return "in", args[kind[2]]
    if kind[:2] == ("in", "blocks"):
        ctx.check("transfer length in the CDB is the caller's", dec["tl"] == ctx.oracle(args["tl"]))
        return "in", extra["blocksize"] * args["tl"]
    if kind[:2] == ("in", "fixed8"):
        return "in", 8
    if kind[:2] == ("out", "plist"):
        return "out", L._extract(c.cdb, kind[2])
    raise AssertionError(kind)


class _FailFirst:
    """first command on each transport completes with CHECK CONDITION (e.g. UNIT ATTENTION), later ones with GOOD"""

    def __init__(self):
        self.n = {"sgio": 0, "iscsi": 0}

    def sgio(self, env, call):
        from stubs import env as E
        self.n["sgio"] += 1
        if self.n["sgio"] == 1:
            raise E.CheckConditionError(bytearray(b"\x70\x00\x06\x00\x00\x00\x00\x0a\x00\x00\x00\x00\x29\x00\x00\x00\x00\x00"))
        return 0

    def iscsi(self, env, task):
        self.n["iscsi"] += 1
        task.status = 0
        if self.n["iscsi"] == 1:
            task.status = 2
            task.raw_sense = bytearray(b"\x70\x00\x06\x00\x00\x00\x00\x0a\x00\x00\x00\x00\x29\x00\x00\x00\x00\x00")


def _transports(ctx, c, direction, length, retry=True):
    """the real device classes over the stub bindings must hand over exactly these objects -- also when the same
    command object is executed again after a CHECK CONDITION (the usual retry after a UNIT ATTENTION)"""
    from stubs import env
    sd, idv = env.install()
    env.ENV.reset(_FailFirst() if retry else None)
    env.ENV.lun = ctx.int("lun", 16)   # the logical unit number is the URL's, any value
    env.ENV.sgio_return = ctx.int("resid", 16)   # the SG_IO binding reports an arbitrary residual count
    before = (c.cdb, c.dataout, c.datain, blen(c.datain), blen(c.dataout) if _is_buffer(c.dataout) else None)
    if retry:
        d0 = sd.SCSIDevice("/dev/sg0")
        ctx.attempt(d0.execute, c)
        i0 = idv.ISCSIDevice("iscsi://host/target/0", "iqn.test")
        ctx.attempt(i0.execute, c)
        ctx.check("a failed execution leaves the command's cdb and buffers as they were",
                  c.cdb is before[0] and c.dataout is before[1] and c.datain is before[2])
        ctx.check("a failed execution does not change the data-in buffer length", blen(c.datain) == ctx.oracle(before[3]))
        if before[4] is not None:
            ctx.check("a failed execution does not change the data-out buffer length", blen(c.dataout) == ctx.oracle(before[4]))
        env.ENV.sgio_calls[:] = []
        env.ENV.iscsi_tasks[:] = []
    dev = sd.SCSIDevice("/dev/sg0")
    dev.execute(c)
    call = env.ENV.sgio_calls[-1]
    ctx.check("SG_IO: binding receives the command's cdb object", call.cdb is c.cdb)
    ctx.check("SG_IO: binding receives the command's dataout object", call.dataout is c.dataout)
    ctx.check("SG_IO: binding receives the command's datain object", call.datain is c.datain)
    ctx.check("SG_IO: exactly one ioctl", len(env.ENV.sgio_calls) == 1)
    idev = idv.ISCSIDevice("iscsi://host/target/0", "iqn.test")
    idev.execute(c)
    t = env.ENV.iscsi_tasks[-1]
    ctx.check("iSCSI: task carries the command's cdb object", t.cdb is c.cdb)
    ctx.check("iSCSI: the task is addressed to the URL's logical unit", t.lun == ctx.oracle(env.ENV.lun))
    ctx.check("iSCSI: binding receives the command's dataout object", t.dataout is c.dataout)
    ctx.check("iSCSI: binding receives the command's datain object", t.datain is c.datain)
    want_dir = {"none": 0, "in": 1, "out": 2}
    if direction == "in":
        # a zero-length data-in transfer is "no data"
        if length == 0:
            ctx.check("iSCSI: direction NONE for an empty transfer", t.dir == 0)
        else:
            ctx.check("iSCSI: direction READ", t.dir == ctx.oracle(1))
    elif direction == "out":
        if length == 0:
            ctx.check("iSCSI: direction NONE for an empty transfer", t.dir == 0)
        else:
            ctx.check("iSCSI: direction WRITE", t.dir == ctx.oracle(2))
    else:
        ctx.check("iSCSI: direction NONE", t.dir == ctx.oracle(want_dir[direction]))
    ctx.check("iSCSI: expected transfer length equals the announced transfer", t.xferlen == ctx.oracle(length))


def h_buffers(ctx, cmd, transports=True):
    spec = L.CDB[cmd]
    st = "sbc" if "sbc" in spec["sets"] else list(spec["sets"])[0]
    opcode = K.lookup_opcode(spec, st)
    args = K.sym_args(ctx, spec)
    kind = spec["data"]
    data = None
    if kind[:2] == ("out", "caller") or kind[1:2] == ("caller-ndob",):
        data = bytearray(b"\x5a" * 6)
    extra = K.extra_args(ctx, spec, args, data=data)
    if kind[:2] == ("in", "fixed8"):
        args.pop("alloclen", None)
    if cmd == "WRITE SAME(16)":
        ctx.assume(args["ndob"] == 0)
    c = K.build(spec, opcode, args, extra)
    ctx.check("datain is a byte buffer", _is_buffer(c.datain), repr(type(c.datain)))
    ctx.check("dataout is a byte buffer", _is_buffer(c.dataout), repr(type(c.dataout)))
    if kind[1:2] in (("caller",), ("caller-ndob",)):
        ctx.check("dataout is the caller's write data", c.dataout is data)
        ctx.check("no data-in buffer for a write", blen(c.datain) == 0)
        direction, length = "out", len(data)
    elif kind[:2] == ("in", "readcd"):
        n = blen(c.datain)
        tl = args["tl"]
        ctx.check("READ CD: room for the largest sector layout (2352+296+96 bytes) per requested sector",
                  n >= ctx.oracle(tl * 2744))
        ctx.check("READ CD: no buffer when no sector is requested", (n == 0) | (tl != 0))
        ctx.check("no data-out buffer for a read", blen(c.dataout) == 0)
        direction, length = "in", n
    else:
        direction, length = _announced(ctx, spec, c, args, extra)
        if direction == "in":
            ctx.check("data-in buffer is exactly as long as the announced transfer", blen(c.datain) == ctx.oracle(length))
            ctx.check("no data-out buffer", blen(c.dataout) == 0)
        elif direction == "out":
            ctx.check("parameter list length in the CDB equals len(dataout)", blen(c.dataout) == ctx.oracle(length))
            ctx.check("no data-in buffer", blen(c.datain) == 0)
        else:
            ctx.check("no data phase: empty data-in buffer", blen(c.datain) == ctx.oracle(0))
            ctx.check("no data phase: empty data-out buffer", blen(c.dataout) == ctx.oracle(0))
    if transports:
        _transports(ctx, c, direction, length)


def h_fresh_buffers(ctx, cmd, size):
    """two commands never share a buffer, whatever its size, and a new data-in buffer is zero-filled"""
    spec = L.CDB[cmd]
    st = "sbc" if "sbc" in spec["sets"] else list(spec["sets"])[0]
    opcode = K.lookup_opcode(spec, st)
    a, e = K.concrete_args(spec)
    kind = spec["data"]
    if kind[:2] == ("in", "alloc"):
        a[kind[2]] = min(size, (1 << L.width(spec["fields"][kind[2]])) - 1)
    elif kind[:2] == ("in", "blocks"):
        e["blocksize"], a["tl"] = 512, max(1, size // 512)
    # a command with a composed parameter list exists already (its buffers must not be anybody else's)
    pro = L.CDB["PERSISTENT RESERVE OUT"]
    other = K.build(pro, K.lookup_opcode(pro, "spc"), {"service_action": 0, "scope": 0, "pr_type": 1}, {})
    c1 = K.build(spec, opcode, a, e)
    if kind[0] != "out":
        ctx.check("a command without data-out phase has an empty data-out buffer whatever was built before",
                  len(c1.dataout) == ctx.oracle(0))
    ctx.check("the earlier command keeps its own parameter list", len(other.dataout) == ctx.oracle(24))
    n = len(c1.datain)
    fill = ctx.int("fill", 8, lo=1)
    if n:
        c1.datain[0] = fill
        c1.datain[n - 1] = fill
    c2 = K.build(spec, opcode, a, e)
    ctx.check("two commands have distinct cdb objects", c1.cdb is not c2.cdb)
    if n:
        ctx.check("two commands never share a data-in buffer (size %d)" % n, c1.datain is not c2.datain)
        ctx.check("a new data-in buffer is zero-filled", (c2.datain[0] == ctx.oracle(0)) & (c2.datain[n - 1] == 0))
        c2.datain[0] = 0
        ctx.check("filling one command's buffer leaves the other's alone", c1.datain[0] == ctx.oracle(fill))
    if len(c1.dataout) and not (kind[1:2] in (("caller",), ("caller-ndob",))):
        ctx.check("two commands never share a data-out buffer", c1.dataout is not c2.dataout)


def h_ws16_ndob(ctx):
    """WRITE SAME(16) with NDOB=1 announces no data-out buffer: an empty byte buffer is required"""
    spec = L.CDB["WRITE SAME(16)"]
    opcode = K.lookup_opcode(spec, "sbc")
    args = K.sym_args(ctx, spec)
    ctx.assume(args["ndob"] == 1)
    bs = ctx.int("blocksize", 32)
    c = K.build(spec, opcode, args, {"blocksize": bs, "data": bytearray(b"ignored")})
    ctx.check("NDOB bit reaches the CDB", (c.cdb[1] & 1) == 1)
    ctx.check("dataout is a byte buffer a transport can take the length of", _is_buffer(c.dataout), repr(c.dataout))
    if _is_buffer(c.dataout):
        ctx.check("NDOB: empty data-out buffer", blen(c.dataout) == ctx.oracle(0))
        ctx.check("NDOB: empty data-in buffer", blen(c.datain) == 0)
        _transports(ctx, c, "none", 0)


def h_ata(ctx, cmd, with_data):
    from pyscsi.pyscsi.scsi_command import SCSICommand
    spec = L.CDB[cmd]
    opcode = K.lookup_opcode(spec, "sbc")
    args = K.sym_args(ctx, spec)
    bs = ctx.int("blocksize", 32)
    extra_tl = ctx.int("extra_tl", 16)
    use_extra = ctx.choose("extra_tl_given", ["no", "yes"])
    extra = {"blocksize": bs}
    if use_extra:
        extra["extra_tl"] = extra_tl
    data = None
    if with_data:
        data = bytearray(b"\x11\x22\x33")
        extra["data"] = data
    st, c = ctx.attempt(K.build, spec, opcode, args, extra)
    if st == "exc":
        if type(c) is SCSICommand.MissingBlocksizeException:
            raise Skip("refused request (C17)")
        raise c
    dec = L.decode_cdb(spec, c.cdb)
    for f in ("t_length", "byte_block", "t_type", "t_dir", "fetures", "count"):
        ctx.check("CDB carries %s" % f, dec[f] == ctx.oracle(args[f]))
    tlen, bb, tt, td = args["t_length"], args["byte_block"], args["t_type"], args["t_dir"]
    # SAT-3 table "T_LENGTH field": 0 none, 1 FEATURES, 2 COUNT, 3 TPSIU (caller-supplied here)
    if tlen == 0:
        count = 0
    elif tlen == 1:
        count = args["fetures"]
    elif tlen == 2:
        count = args["count"]
    else:
        count = extra_tl if use_extra else 0
    # BYTE_BLOCK / T_TYPE: bytes, 512-byte blocks, or logical sector size
    if tlen == 0:
        unit = 0
    elif bb == 0:
        unit = 1
    elif tt == 0:
        unit = 512
    else:
        unit = bs
    total = count * unit
    ctx.check("datain is a byte buffer", _is_buffer(c.datain))
    ctx.check("dataout is a byte buffer", _is_buffer(c.dataout))
    if td == 0:  # to the device
        if with_data:
            ctx.check("T_DIR=0: caller's data is the data-out buffer", c.dataout is data)
        else:
            ctx.check("T_DIR=0: data-out buffer has the SAT transfer size", blen(c.dataout) == ctx.oracle(total))
        ctx.check("T_DIR=0: empty data-in buffer", blen(c.datain) == 0)
    else:
        if with_data:
            ctx.check("T_DIR=1: caller's buffer is the data-in buffer", c.datain is data)
        else:
            ctx.check("T_DIR=1: data-in buffer has the SAT transfer size", blen(c.datain) == ctx.oracle(total))
        ctx.check("T_DIR=1: empty data-out buffer", blen(c.dataout) == 0)


def h_facade_state(ctx, form, kind):
    """through one facade object: whatever the device answered to earlier READ CAPACITY / INQUIRY / MODE SENSE calls,
    a later READ or WRITE carries tl x (the block size the caller configured) bytes, as its CDB announces"""
    from pyscsi.pyscsi.scsi import SCSI
    from stubs.recdev import RecDevice
    import pyscsi.pyscsi.scsi_enum_command as ec
    n = [0]

    def on(dev, c):
        # the device fills every data-in buffer of the learning phase with arbitrary bytes
        if n[0] is not None and _is_buffer(c.datain) and getattr(c.datain, "symlen", None) is None and 0 < len(c.datain) <= 64:
            n[0] += 1
            c.datain[:] = ctx.bytes("answer%d" % n[0], len(c.datain))
    dev = RecDevice(ec.sbc, on_execute=on)
    s = SCSI(RecDevice(), 512)
    s.device = dev
    bs = 512
    for m, kw in (("readcapacity16", {"alloclen": 32}), ("readcapacity10", {}), ("inquiry", {"alloclen": 36}),
                  ("modesense6", {"page_code": 0x0A, "alloclen": 24})):
        ctx.attempt(getattr(s, m), **kw)
    n[0] = None
    tl = ctx.int("tl", 8)
    flags = {"group": ctx.int("group", 5), "dpo": ctx.int("dpo", 1), "fua": ctx.int("fua", 1)}
    if kind == "read":
        flags["rdprotect"] = ctx.int("rdprotect", 3)
        c = getattr(s, "read" + form)(ctx.int("lba", 31), tl, **flags)
        ctx.check("READ(%s) after capacity/inquiry/mode-sense calls: data-in is tl x blocksize" % form,
                  blen(c.datain) == ctx.oracle(tl * bs))
    else:
        flags["wrprotect"] = ctx.int("wrprotect", 3)
        k = ctx.concrete(ctx.int("blocks", 2, lo=1, hi=2))
        data = bytearray(b"\x11" * (bs * k))
        c = getattr(s, "write" + form)(ctx.int("lba", 31), k, data, **flags)
        ctx.check("WRITE(%s): data-out is the caller's buffer" % form, c.dataout is data)
        spec = L.CDB["WRITE(%s)" % form]
        ctx.check("WRITE(%s): the CDB announces the blocks the caller passed" % form,
                  L.decode_cdb(spec, c.cdb)["tl"] == ctx.oracle(k))
    ctx.check("the facade's block size is still the configured one", s.blocksize == ctx.oracle(bs))


def h_payload_kinds(ctx, form, transport, kind):
    """write data handed over as bytes / bytearray / a memoryview slice of a larger buffer: the binding receives
    exactly those bytes"""
    from stubs import env
    sd, idv = env.install()
    from pyscsi.pyscsi.scsi import SCSI
    import pyscsi.pyscsi.scsi_enum_command as ec
    env.ENV.reset(None)
    dev = sd.SCSIDevice("/dev/sg0", readwrite=True) if transport == "sgio" else idv.ISCSIDevice("iscsi://h/t/0", "iqn.t")
    dev.opcodes = ec.sbc
    s = SCSI(RecDeviceNone(), 4)
    s.device = dev
    big = bytearray(range(64))
    off = ctx.concrete(ctx.int("offset", 3, lo=0, hi=7)) * 4
    want = bytes(big[off:off + 8])
    data = {"bytes": want, "bytearray": bytearray(want), "memoryview": memoryview(big)[off:off + 8]}[kind]
    c = getattr(s, "write" + form)(ctx.int("lba", 16), 2, data)
    calls = env.ENV.sgio_calls if transport == "sgio" else env.ENV.iscsi_tasks
    ctx.check("one command at the binding", len(calls) == ctx.oracle(1))
    if calls:
        got = calls[-1].dataout
        ctx.check("the binding receives exactly the caller's bytes (%s)" % kind, bytes(got) == want, repr(bytes(got))[:60])


def RecDeviceNone():
    from stubs.recdev import RecDevice
    return RecDevice()


class _Only:
    """harness-context proxy that keeps only the checks whose label matches (everything else the wrapped harness
    states belongs to another property and is decided there)"""
    def __init__(self, ctx, keep):
        self.__dict__["_ctx"], self.__dict__["_keep"] = ctx, keep

    def __getattr__(self, name):
        return getattr(self._ctx, name)

    def __setattr__(self, name, value):
        setattr(self._ctx, name, value)

    def check(self, label, cond, *a, **k):
        if any(x in label for x in self._keep):
            return self._ctx.check(label, cond, *a, **k)
        return True


def h_plist(ctx, func, params):
    """parameter lists built from caller dictionaries (PERSISTENT RESERVE OUT with TransportIDs, MODE SELECT,
    EXTENDED COPY): the CDB's PARAMETER LIST LENGTH announces exactly the data-out buffer, which has the length the
    standard's layout gives that list (the layout itself is C05)"""
    from . import c05
    getattr(c05, func)(_Only(ctx, ("CDB parameter list length", "parameter list has the standard's length")), **params)


def obligations(tier):
    from symx.harness import Ob
    from . import c05
    obs = []
    for o in c05.obligations(tier):
        obs.append(Ob("plist/" + o.name, MOD, "h_plist", {"func": o.func, "params": o.params}))
    for form in ("10", "12", "16"):
        for kind in ("read", "write"):
            obs.append(Ob("facade-state/%s%s" % (kind, form), MOD, "h_facade_state", {"form": form, "kind": kind}))
        for tr in ("sgio", "iscsi"):
            for kind in ("bytes", "bytearray", "memoryview"):
                if tier == "quick" and form == "12":
                    continue
                obs.append(Ob("payload/%s/write%s/%s" % (tr, form, kind), MOD, "h_payload_kinds",
                              {"form": form, "transport": tr, "kind": kind}, canary=False))
    for cmd, spec in L.CDB.items():
        if spec["data"][0] == "ata":
            for wd in (False, True):
                obs.append(Ob("ata/%s/data=%s" % (cmd, wd), MOD, "h_ata", {"cmd": cmd, "with_data": wd}))
            continue
        obs.append(Ob("buffers/%s" % cmd, MOD, "h_buffers", {"cmd": cmd}))
    obs.append(Ob("buffers/WRITE SAME(16)/ndob", MOD, "h_ws16_ndob", {}))
    for cmd in ("READ(10)", "READ(16)", "INQUIRY", "REPORT LUNS", "READ ELEMENT STATUS", "GET LBA STATUS", "MODE SENSE(10)"):
        for size in (1, 4096, 65535, 65536, 1 << 20):
            obs.append(Ob("fresh-buffers/%s/size=%d" % (cmd, size), MOD, "h_fresh_buffers", {"cmd": cmd, "size": size}))
    return obs


CANARIES = {"quick": 25, "thorough": None}

INFO = {
    "explanation": "Per command class: block size, transfer/allocation lengths, all flags symbolic (buffers of symbolic "
                   "length are modelled as terms, so len(datain) is a z3 expression); the announced transfer is decoded "
                   "from the emitted CDB by the spec decoder and compared with the buffer lengths by unsat queries; the "
                   "ATA PASS-THROUGH size rules are explored over all T_LENGTH/BYTE_BLOCK/T_TYPE/T_DIR combinations; both "
                   "real transports run over stub bindings and must pass the same objects and (iSCSI) direction/length/LUN "
                   "(LUN and the SG_IO residual count are solver variables). The CDB's PARAMETER LIST LENGTH is compared with "
                   "len(dataout) for every parameter-list dictionary of C05; after arbitrary device answers to READ CAPACITY / "
                   "INQUIRY / MODE SENSE the facade's READ/WRITE buffers are still tl x the configured block size; write data "
                   "given as bytes / bytearray / memoryview slice reaches the binding byte for byte.",
    "functions": ["SCSICommand.__init__ (buffer allocation)", "__init__ of every scsi_cdb_*.py (size computation)",
                  "ATAPassThrough12/16.__init__ size rules", "SCSIDevice.execute", "ISCSIDevice.execute"],
    "bounds": {"sizes": "block size < 2^32, lengths at full field width (products compared as terms)",
               "parameter lists": "the dictionaries of the C05 obligations (length agreement only; layout is C05)", "caller data": "6-byte / 3-byte buffers"},
    "outside": ["T_LENGTH=1 with ATA PASS-THROUGH(16) and EXTEND=0 (whether FEATURES(15:8) counts is not modelled: the "
                "whole FEATURES argument is taken, as the library does)", "out-of-range sizes"],
    "assumptions": ["stub bindings of stubs/env.py (contracts listed there)", "spec/cdb_layouts.py"],
}
