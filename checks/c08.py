"""C08 -- sense data is always decodable and printable, with the right key/ASC/ASCQ.

SCSICheckCondition(sense), str() and print_data run on L symbolic bytes.  Table
look-ups with a symbolic key fork on hit/miss (obligation family A, every length) or
on the exact entry (family B, one length per format), so "is there a (format, key,
ASC, ASCQ) for which construction or formatting raises / reports the wrong value /
prints the wrong text" is decided by the solver per path."""
from spec import t10_codes as T

MOD = "checks.c08"


def _positions(buf):
    """SPC-4 4.5: (known format, key, asc, ascq); fields beyond the end of a short buffer read as 0"""
    n = len(buf)
    rc = buf[0] & 0x7F
    g = lambda i: buf[i] if i < n else 0
    if (rc == 0x70) | (rc == 0x71):
        return "fixed", g(2) & 0x0F, g(12), g(13)
    if (rc == 0x72) | (rc == 0x73):
        return "descriptor", g(1) & 0x0F, g(2), g(3)
    return None, None, None, None


def h_any(ctx, n, print_data):
    from pyscsi.pyscsi.scsi_sense import SCSICheckCondition
    buf = ctx.bytes("sense", n)
    st, e = ctx.attempt(SCSICheckCondition, buf, print_data=print_data)
    ctx.check("CheckCondition can be constructed from any sense bytes", ctx.oracle(st == "ok"), repr(e))
    if st != "ok":
        return
    st2, txt = ctx.attempt(str, e)
    ctx.check("str(CheckCondition) does not raise", ctx.oracle(st2 == "ok"), repr(txt))
    ctx.check("valid bit is byte 0 bit 7", (e.valid != 0) == ctx.oracle((buf[0] & 0x80) != 0))
    ctx.check("response code is byte 0 bits 6:0", e.response_code == ctx.oracle(buf[0] & 0x7F))
    fmt, key, asc, ascq = _positions(buf)
    if fmt:
        ctx.check("sense key at the %s-format position" % fmt, e.data.get("sense_key", -1) == ctx.oracle(key))
        ctx.check("ASC at the %s-format position" % fmt, getattr(e, "asc", -1) == ctx.oracle(asc))
        ctx.check("ASCQ at the %s-format position" % fmt, getattr(e, "ascq", -1) == ctx.oracle(ascq))


def h_text(ctx, fmt):
    """exact table entries: every (key, ASC, ASCQ) prints; assigned codes carry their T10 wording"""
    from pyscsi.pyscsi.scsi_sense import SCSICheckCondition
    n = 18 if fmt == "fixed" else 8
    rc = ctx.choose("deferred", ["current", "deferred"]) + (0x70 if fmt == "fixed" else 0x72)
    key, asc, ascq = ctx.int("key", 4), ctx.int("asc", 8), ctx.int("ascq", 8)
    def mk(k):
        b = bytearray(n)
        if ctx.symbolic:
            from symx.values import SymBytes
            b = SymBytes([0] * n)
        b[0] = rc
        if fmt == "fixed":
            b[2], b[7], b[12], b[13] = k, 10, asc, ascq
        else:
            b[1], b[2], b[3] = k, asc, ascq
        return b
    buf = mk(key)
    mode = ctx.choose("vary", ["sense-key", "asc/ascq"])
    if mode == 0:
        ctx.assume(asc == 0x29)
        ctx.assume(ascq == 0x00)
        # history: another error of the same format and ASC/ASCQ but a different sense key was printed just before
        ctx.attempt(lambda: str(SCSICheckCondition(mk((key + 1) & 15))))
    else:
        ctx.assume(key == 6)
    st, e = ctx.attempt(SCSICheckCondition, buf)
    ctx.check("constructs", st == "ok", repr(e))
    if st != "ok":
        return
    st2, txt = ctx.attempt(str, e)
    ctx.check("str() does not raise for any sense key / ASC / ASCQ", ctx.oracle(st2 == "ok"), repr(txt))
    if st2 != "ok":
        return
    low = txt.lower()
    if mode == 0:
        k = ctx.concrete(key)  # at most 16 values
        if k in T.SENSE_KEYS:
            ctx.check("sense key %Xh is described by its SPC name" % k, ctx.oracle(T.SENSE_KEYS[k].lower() in low), txt)
        return
    code = (asc << 8) | ascq
    known = False
    for c in T.ASCQ_TEXT:  # membership in the oracle's table as one disjunction (no enumeration of other codes)
        known = known | (code == c)
    if known:
        c = ctx.concrete(code)
        ctx.check("assigned ASC/ASCQ %04Xh is described by its T10 text" % c,
                  ctx.oracle(T.ASCQ_TEXT[c].lower() in low), txt)


def h_two_errors(ctx, n1, n2):
    """an error object keeps reporting its own sense data after other errors have been created"""
    from pyscsi.pyscsi.scsi_sense import SCSICheckCondition
    b1, b2 = ctx.bytes("first", n1), ctx.bytes("second", n2)
    e1 = SCSICheckCondition(b1)
    f1, k1, a1, q1 = _positions(b1)
    snap = dict(e1.data)
    e2 = SCSICheckCondition(b2)
    f2, k2, a2, q2 = _positions(b2)
    if f1:
        ctx.check("first error still reports its own sense key", e1.data.get("sense_key", -1) == ctx.oracle(k1))
        ctx.check("first error still reports its own ASC/ASCQ", (e1.asc == ctx.oracle(a1)) & (e1.ascq == q1))
    ctx.check("first error's decoded data is untouched by the second", e1.data == snap)
    ctx.check("the two errors do not share their data", e1.data is not e2.data)
    if f2:
        ctx.check("second error reports its own sense key", e2.data.get("sense_key", -1) == ctx.oracle(k2))


def h_tables(ctx):
    """finite side obligation: no code is listed twice in the sense-key / ASC-ASCQ dict literals (a later duplicate
    silently replaces the earlier text), every key is in range"""
    import ast
    import os
    import pyscsi.pyscsi.scsi_sense as S
    src = open(os.path.splitext(S.__file__)[0] + ".py").read()
    tree = ast.parse(src)
    dups, n = [], 0
    for node in ast.walk(tree):
        if isinstance(node, ast.Assign) and isinstance(node.value, ast.Dict) and any(
                isinstance(t, ast.Name) and t.id in ("sense_ascq_dict", "sense_key_dict") for t in node.targets):
            seen = set()
            for k in node.value.keys:
                if isinstance(k, ast.Constant):
                    n += 1
                    if k.value in seen:
                        dups.append(hex(k.value))
                    seen.add(k.value)
    ctx.check("table literals found", n > ctx.oracle(100))
    ctx.check("no code is listed twice in the sense tables (%d entries)" % n, not dups, str(dups))
    ctx.check("ASC/ASCQ keys are 16-bit, sense keys 4-bit", all(0 <= k <= 0xFFFF for k in S.sense_ascq_dict)
              and all(0 <= k <= 15 for k in S.sense_key_dict))


def obligations(tier):
    from symx.harness import Ob
    obs = []
    lens = [1, 2, 3, 4, 7, 8, 12, 13, 14, 17, 18, 32, 96, 252] if tier == "quick" else list(range(1, 253))
    for n in lens:
        for pd in (False, True):
            obs.append(Ob("any/L=%d/print=%s" % (n, pd), MOD, "h_any", {"n": n, "print_data": pd},
                          abstract_dicts=True, split=True, canary=(n >= 14)))
    for fmt in ("fixed", "descriptor"):
        obs.append(Ob("text/%s" % fmt, MOD, "h_text", {"fmt": fmt}, split=True))
    obs.append(Ob("sense-tables", MOD, "h_tables", {}))
    for n1, n2 in ((18, 18), (18, 8), (8, 18)):
        obs.append(Ob("two-errors/%d,%d" % (n1, n2), MOD, "h_two_errors", {"n1": n1, "n2": n2}, abstract_dicts=True, split=True))
    return obs


CANARIES = {"quick": 10, "thorough": 30}

INFO = {
    "explanation": "SCSICheckCondition and its __str__/print_data run on L symbolic sense bytes for every L in the bound "
                   "(table look-ups fork on hit/miss), and on symbolic sense key / ASC / ASCQ with exact table forks; z3 "
                   "decides per path that nothing raises, that valid/response code/key/ASC/ASCQ are the bytes SPC-4 "
                   "assigns for response codes 70h-73h, and that codes of the independent T10 subset print their T10 text.",
    "functions": ["SCSICheckCondition.__init__", "__str__", "_describe_ascq", "_ascq", "print_data",
                  "unmarshall_fixed_format_sense_data", "unmarshall_desc_format_sense_data", "sense_key_dict",
                  "sense_ascq_dict"],
    "bounds": {"length": "quick 14 lengths in 1..252, thorough every length 1..252", "content": "all byte values",
               "text oracle": "155 ASC/ASCQ codes + 15 sense keys transcribed independently; other assigned codes are only "
                              "checked for 'prints without raising'"},
    "outside": ["wording of the ~550 ASC/ASCQ codes not in the independent subset", "sense descriptors beyond the header"],
    "assumptions": ["spec/t10_codes.py ASCQ_TEXT / SENSE_KEYS"],
    "oracle_gaps": ["T10 text oracle covers 155 of ~700 assigned ASC/ASCQ codes"],
}
