"""C06 -- parameter data survives a build/parse round trip and read-modify-write.

Canonical responses come from the independent builders of spec/responses.py (fields
symbolic, reserved bits zero, lengths consistent).  Per structure with both
directions: (b) marshall(unmarshall(b)) == b byte for byte; (a) for the dictionary d
the library itself decodes from b (all leaves symbolic), unmarshall(marshall(d)) == d;
(c) read-modify-write of every mode-page field changes exactly that field's bits."""
from spec import cdb_layouts as L
from spec import responses as R

from .respcommon import covers, same

MOD = "checks.c06"


def _buf(ctx, data):
    if ctx.symbolic:
        from symx.values import SymBytes
        return SymBytes(list(data))
    return bytearray(data)


def _roundtrip(ctx, label, unm, mar, data, pad_ok=False):
    b = _buf(ctx, data)
    d = unm(b)
    b2 = mar(d)
    ctx.check("%s: rebuilt response has the original length" % label, len(b2) == ctx.oracle(len(data)), "%d vs %d" % (len(b2), len(data)))
    n = min(len(b2), len(data))
    for i in range(n):
        ctx.check("%s: marshall(unmarshall(b))[%d] == b[%d]" % (label, i, i), b2[i] == ctx.oracle(data[i]))
    d2 = unm(b2)
    ctx.check("%s: unmarshall(marshall(d)) == d" % label, same(d2, ctx.oracle_struct(d)))
    b3 = mar(d)
    ctx.check("%s: building the same dictionary again gives the same bytes" % label, same(list(b3), ctx.oracle_struct(list(b2))))
    return d, b2


def h_inquiry(ctx, what, arg=None):
    from pyscsi.pyscsi.scsi_cdb_inquiry import Inquiry
    if what == "standard":
        data, exp = R.inquiry_standard(ctx)
        return _roundtrip(ctx, "standard INQUIRY", lambda b: Inquiry.unmarshall_datain(b, evpd=0), Inquiry.marshall_datain, data)
    if what == "fixed":
        data, exp = R.vpd_fixed(ctx, arg)
    elif what == "serial":
        data, exp = R.vpd_serial(ctx, arg)
    else:
        data, exp = R.vpd_device_identification(ctx, arg)
        for d in exp["designator_descriptors"]:
            # canonical: PROTOCOL IDENTIFIER is reserved (0) unless PIV=1 and ASSOCIATION is 1 or 2 (SPC-4 7.8.6.1)
            meaningful = (d["piv"] == 1) & ((d["association"] == 1) | (d["association"] == 2))
            ctx.assume(meaningful | (d["protocol_identifier"] == 0))
    _roundtrip(ctx, "VPD %s %s" % (what, arg), lambda b: Inquiry.unmarshall_datain(b, evpd=1), Inquiry.marshall_datain, data)


def h_mode(ctx, ten, kinds):
    from pyscsi.pyscsi.scsi_cdb_modesense6 import ModeSense6
    from pyscsi.pyscsi.scsi_cdb_modesense10 import ModeSense10
    cls = ModeSense10 if ten else ModeSense6
    data, exp = R.mode_sense(ctx, ten, kinds)
    _roundtrip(ctx, "MODE SENSE(%d) %s" % (10 if ten else 6, kinds), cls.unmarshall_datain, cls.marshall_datain, data)


def h_mode_rmw(ctx, ten, kind, field):
    """read a mode page, change one field, write it back: only that field's bits change"""
    from pyscsi.pyscsi.scsi_cdb_modesense6 import ModeSelect6, ModeSense6
    from pyscsi.pyscsi.scsi_cdb_modesense10 import ModeSelect10, ModeSense10
    import pyscsi.pyscsi.scsi_enum_command as ec
    cls = ModeSense10 if ten else ModeSense6
    data, exp = R.mode_sense(ctx, ten, [kind])
    code, sub, lay, size = R.MODE_PAGES[kind]
    segs = lay[field]
    v = ctx.int("new_value", L.width(segs))
    d = cls.unmarshall_datain(_buf(ctx, data))
    d["mode_pages"][0][field] = v
    sel = (ModeSelect10 if ten else ModeSelect6)(ec.spc.MODE_SELECT_10 if ten else ec.spc.MODE_SELECT_6, d)
    out = sel.dataout
    base = 8 if ten else 4
    want = list(data)
    for byte, msb, lsb, src in segs:  # clear the field, then place the new value
        want[base + byte] = want[base + byte] & (0xFF ^ (((1 << (msb - lsb + 1)) - 1) << lsb))
    L._place_at = None
    shifted = [(base + byte, msb, lsb, src) for byte, msb, lsb, src in segs]
    L._place(want, shifted, v)
    ctx.check("length unchanged", len(out) == ctx.oracle(len(want)))
    hl = 2 if ten else 1
    for i in range(hl, min(len(out), len(want))):
        ctx.check("byte %d: only the bits of '%s' change" % (i, field), out[i] == ctx.oracle(want[i]))


def h_simple(ctx, fmt, arg=None):
    from pyscsi.pyscsi.scsi_cdb_getlbastatus import GetLBAStatus
    from pyscsi.pyscsi.scsi_cdb_readcapacity10 import ReadCapacity10
    from pyscsi.pyscsi.scsi_cdb_readcapacity16 import ReadCapacity16
    from pyscsi.pyscsi.scsi_cdb_readelementstatus import ReadElementStatus
    from pyscsi.pyscsi.scsi_cdb_report_luns import ReportLuns
    from pyscsi.pyscsi.scsi_cdb_report_target_port_groups import ReportTargetPortGroups
    if fmt == "readcapacity10":
        data, exp = R.read_capacity(ctx, False)
        cls = ReadCapacity10
    elif fmt == "readcapacity16":
        data, exp = R.read_capacity(ctx, True)
        cls = ReadCapacity16
    elif fmt == "getlbastatus":
        data, exp = R.get_lba_status(ctx, arg)
        cls = GetLBAStatus
    elif fmt == "reportluns":
        data, exp = R.report_luns(ctx, arg)
        cls = ReportLuns
    elif fmt == "rtpg":
        data, exp = R.report_target_port_groups(ctx, arg[0], arg[1])
        cls = ReportTargetPortGroups
    elif fmt == "readelementstatus":
        data, exp = R.read_element_status(ctx, arg)
        cls = ReadElementStatus
    else:
        raise AssertionError(fmt)
    _roundtrip(ctx, fmt, cls.unmarshall_datain, cls.marshall_datain, data)
    # the other direction, from the caller's values: parse(build(v)) == v for the values of a canonical response
    st, back = ctx.attempt(lambda: cls.unmarshall_datain(cls.marshall_datain(exp)))
    ctx.check("%s: a valid value dictionary can be built and parsed" % fmt, st == "ok", repr(back)[:120])
    if st == "ok":
        covers(ctx, "%s: unmarshall(marshall(v))" % fmt, back, exp)


def h_transport_id(ctx, kind, name_len):
    from pyscsi.pyscsi.scsi_cdb_persistentreservein import PersistentReserveInReadFullStatus as F
    g = R.Gen(ctx)
    data, exp = R.transport_id(g, kind, name_len)
    _roundtrip(ctx, "TransportID %s" % kind, F.unmarshall_transport_id, F.marshall_transport_id, data)
    # and from the caller's dictionary: parse(build(d)) == d
    d = dict(exp)
    if kind.startswith("iscsi") and d.get("tpid_format") == 0:
        d.pop("tpid_format")
    back = F.unmarshall_transport_id(F.marshall_transport_id(d))
    for k, v in exp.items():
        ctx.check("unmarshall(marshall(d))['%s']" % k, same(back.get(k), ctx.oracle_struct(v)))


def obligations(tier):
    from symx.harness import Ob
    q = tier == "quick"
    obs = []

    def add(name, func, **p):
        obs.append(Ob(name, MOD, func, p))
    add("inquiry/standard", "h_inquiry", what="standard")
    for page in (0xB2, 0xB3, 0x86):
        add("inquiry/vpd-%02x" % page, "h_inquiry", what="fixed", arg=page)
    for n in (0, 1, 8, 300):
        add("inquiry/vpd-80/n=%d" % n, "h_inquiry", what="serial", arg=n)
    for k in R.DESIGNATOR_KINDS:
        add("inquiry/vpd-83/%s" % k, "h_inquiry", what="devid", arg=[k])
    add("inquiry/vpd-83/none", "h_inquiry", what="devid", arg=[])
    add("inquiry/vpd-83/naa5+t10+relport", "h_inquiry", what="devid", arg=["naa5", "t10", "relport"])
    for ten in (False, True):
        nm = "modesense%d" % (10 if ten else 6)
        for kind in R.MODE_PAGES:
            add("%s/%s" % (nm, kind), "h_mode", ten=ten, kinds=[kind])
            fields = list(R.MODE_PAGES[kind][2])
            if q:
                fields = fields[:1] + [f for f in fields if f in ("swp", "d_sense", "maximum_burst_size", "qerr")] + fields[-1:]
            for f in dict.fromkeys(fields):
                add("%s/rmw/%s/%s" % (nm, kind, f), "h_mode_rmw", ten=ten, kind=kind, field=f)
    add("readcapacity10", "h_simple", fmt="readcapacity10")
    add("readcapacity16", "h_simple", fmt="readcapacity16")
    for n in range(0, 3 if q else 5):
        add("getlbastatus/n=%d" % n, "h_simple", fmt="getlbastatus", arg=n)
        add("reportluns/n=%d" % n, "h_simple", fmt="reportluns", arg=n)
    add("reportluns/n=12", "h_simple", fmt="reportluns", arg=12)   # two-digit LUN indices (lun10 sorts before lun2 as text)
    for ext in (False, True):
        for ports in ([], [0], [1], [2, 1]):
            add("rtpg/ext=%s/ports=%s" % (ext, ports), "h_simple", fmt="rtpg", arg=[ext, ports])
    for i, pages in enumerate([[], [[2, 0, 0, 1]], [[1, 0, 0, 2]], [[3, 1, 0, 1]], [[2, 0, 1, 1]], [[4, 1, 1, 1]], [[2, 0, 0, 1], [4, 0, 1, 1]]]):
        add("readelementstatus/%d:%s" % (i, pages), "h_simple", fmt="readelementstatus", arg=pages)
    for kind in R.TRANSPORT_KINDS + ["iscsi-name-utf8", "iscsi-name-isid-utf8", "iscsi-name-isid-upper"]:
        for nl in ((9,) if not kind.startswith("iscsi") else ((25, 26, 27, 28) if kind.endswith("-utf8") else
                   ((1, 2, 3, 4, 5, 11, 12) if q or kind.endswith("-upper") else range(1, 41)))):
            add("transport-id/%s/name-len=%d" % (kind, nl), "h_transport_id", kind=kind, name_len=nl)
    return obs


CANARIES = {"quick": 30, "thorough": 60}

INFO = {
    "explanation": "For every structure with both directions the canonical response is built by the independent builder with all "
                   "fields symbolic; the real unmarshall/marshall pair runs both ways and z3 decides byte-for-byte equality "
                   "of marshall(unmarshall(b)) with b, equality of unmarshall(marshall(d)) with d for the decoded dictionary and "
                   "for the value dictionary of the canonical response itself (READ CAPACITY, GET LBA STATUS, REPORT LUNS, "
                   "REPORT TARGET PORT GROUPS, READ ELEMENT STATUS, TransportIDs), "
                   "and, for every mode-page field, that a read-modify-write through ModeSelect changes exactly that field's "
                   "bits (the swp path of tools/swp.py among them).",
    "functions": ["Inquiry.marshall_datain/unmarshall_datain/marshall_designation_descriptor/marshall_designator/"
                  "unmarshall_designator", "ModeSense6/10.marshall_datain/unmarshall_datain", "ModeSelect6/10.__init__",
                  "ReadCapacity10/16, GetLBAStatus, ReportLuns, ReportTargetPortGroups, ReadElementStatus marshall/unmarshall",
                  "PersistentReserveInReadFullStatus.marshall_transport_id/unmarshall_transport_id"],
    "bounds": {"descriptors": "0..2 quick / 0..4 thorough", "mode pages": "one page per list; every field (quick: a selection) "
               "for read-modify-write", "iSCSI name lengths": "1..5, 11, 12 quick / 1..40 thorough"},
    "outside": ["mode parameter lists with block descriptors (the library's dictionary has no place for them)",
                "VPD pages the library cannot marshal (00h, 89h, B0h, B1h)", "REPORT PRIORITY (see C04 known finding)"],
    "assumptions": ["spec/responses.py canonical forms"],
}
