"""C18 -- enumerations map names to values and back consistently under add/remove.

Reference model: an ordinary python dict that undergoes the same operations.  Two
enumerations are alive at once; the solver chooses each operation (kind, which
enumeration, which name) and quantifies over the integer values, so the reverse
look-up is decided for every equal/unequal relation among values."""
MOD = "checks.c18"

NAMES = ["ALPHA", "beta", "Gamma_3"]


def _kind_value(ctx, kind, tag):
    from pyscsi.pyscsi.scsi_opcode import OpCode
    from pyscsi.utils.enum import Enum
    if kind == "int":
        return ctx.int(tag, 3)
    if kind == "dict":
        return {"mask": [ctx.int(tag, 3), 1], "name": "x"}
    if kind == "opcode":
        return OpCode("OP", ctx.int(tag, 3), {"SA": 1})
    if kind == "str":
        return "text"
    if kind == "none":
        return None
    if kind == "enum":
        return Enum({"inner": ctx.int(tag, 3)})
    if kind == "function":
        return len
    raise AssertionError(kind)


def _same(a, b):
    if a is b:
        return True
    if type(a).__name__ == "OpCode" and type(b).__name__ == "OpCode":
        return False
    return a == b


def _agree(ctx, E, model, tag, probe, reverse=True):
    ctx.check(tag + "names are exactly the model's", sorted(E.keys) == ctx.oracle_struct(sorted(model.keys())),
              "%r vs %r" % (E.keys, list(model)))
    for n, v in model.items():
        got = getattr(E, n, "<missing>")
        ctx.check(tag + "value of %s" % n, (got is v) or (got == ctx.oracle(v)))
    if not reverse:
        return
    # reverse look-up of an arbitrary probe value: first name (in supply order) carrying it, else ""
    want = ""
    for n, v in model.items():
        if isinstance(v, (int,)) or hasattr(v, "t"):
            if v == probe:
                want = n
                break
    ctx.check(tag + "reverse look-up agrees with the dictionary", E[probe] == ctx.oracle(want))


def h_history(ctx, k, form, nnames, kind, probe_choice=True):
    from pyscsi.utils.enum import Enum
    names = NAMES[:nnames]
    init = [{}, {}]
    init[0][names[0]] = _kind_value(ctx, kind, "i0")
    init[0]["second"] = ctx.int("i1", 3)
    init[0]["_reserved"] = ctx.int("i3", 3)
    init[1][names[-1]] = ctx.int("i2", 3)
    if form == "dict":
        enums = [Enum(dict(init[0])), Enum(dict(init[1]))]
    else:
        enums = [Enum(**init[0]), Enum(**init[1])]
    models = [dict(init[0]), dict(init[1])]
    probe = ctx.int("probe", 3)
    for e in (0, 1):
        _agree(ctx, enums[e], models[e], "initial/enum%d: " % e, probe)
    ops = ["add:" + n for n in names] + ["remove:" + n for n in names] + ["get:" + n for n in names] + ["reverse"]
    # a reverse look-up is itself an operation that may touch state (a memo of earlier answers): in one half of the
    # histories every intermediate state is probed, in the other only the first and the last one
    # (quick tier: the choice is made for histories of two steps; longer ones probe every state)
    every = ctx.choose("probe-every-step", ["yes", "no"]) == 0 if (k > 1 and probe_choice) else True
    for step in range(k):
        rev = every or step == k - 1
        which = ctx.choose("enum%d" % step, ["first", "second"])
        op = ops[ctx.choose("op%d" % step, ops)]
        E, M = enums[which], models[which]
        other_before = dict(models[1 - which])
        tag = "step %d (%s on enum%d): " % (step, op, which)
        if op.startswith("add:"):
            n = op[4:]
            v = _kind_value(ctx, kind if step == 0 else "int", "v%d" % step)
            st, r = ctx.attempt(E.add, n, v)
            if n in M:
                ctx.check(tag + "adding an existing name is refused with KeyError", ctx.oracle(st == "exc" and type(r) is KeyError), repr(r))
            else:
                ctx.check(tag + "adding a new name succeeds", ctx.oracle(st == "ok"), repr(r))
                M[n] = v
        elif op.startswith("remove:"):
            n = op[7:]
            st, r = ctx.attempt(E.remove, n)
            if n in M:
                ctx.check(tag + "removing an existing name succeeds", ctx.oracle(st == "ok"), repr(r))
                del M[n]
            else:
                ctx.check(tag + "removing a missing name is refused with KeyError", ctx.oracle(st == "exc" and type(r) is KeyError), repr(r))
        elif op.startswith("get:"):
            n = op[4:]
            st, r = ctx.attempt(getattr, E, n)
            if n in M:
                ctx.check(tag + "look-up returns the value", st == "ok" and ((r is M[n]) or (r == ctx.oracle(M[n]))))
            else:
                ctx.check(tag + "look-up of a missing name raises AttributeError", ctx.oracle(st == "exc" and type(r) is AttributeError))
        _agree(ctx, E, M, tag, probe, rev)
        ctx.check(tag + "the other enumeration is untouched", models[1 - which] == other_before)
        _agree(ctx, enums[1 - which], models[1 - which], tag + "other: ", probe, rev)


def h_opcode_enums(ctx, same_table):
    """service-action enumerations of different OpCode objects (also the library's own tables) are independent"""
    import pyscsi.pyscsi.scsi_enum_command as ec
    from pyscsi.pyscsi.scsi_opcode import OpCode
    t1 = {"ONE": ctx.int("v1", 3), "TWO": ctx.int("v2", 3)}
    t2 = dict(t1) if same_table else {"ONE": ctx.int("w1", 3), "THREE": ctx.int("w3", 3)}
    a, b = OpCode("A", 0x12, t1), OpCode("B", 0x28, t2)
    pairs = [(a.serviceaction, b.serviceaction, dict(t1), dict(t2)),
             (ec.spc.INQUIRY.serviceaction, ec.sbc.READ_10.serviceaction, {}, {}),
             (ec.spc.SPC_OPCODE_A3.serviceaction, ec.sbc.SBC_OPCODE_A3.serviceaction, None, None)]
    probe = ctx.int("probe", 3)
    for n, (ea, eb, ma, mb) in enumerate(pairs):
        before = sorted(eb.keys)
        v = ctx.int("new%d" % n, 3)
        ea.add("ADDED_NAME", v)
        try:
            ctx.check("pair %d: adding to one enumeration leaves the other's names alone" % n, sorted(eb.keys) == ctx.oracle_struct(before))
            ctx.check("pair %d: the other enumeration does not see the new name" % n, not hasattr(eb, "ADDED_NAME"))
            st, r = ctx.attempt(eb.add, "ADDED_NAME", ctx.int("other%d" % n, 3))
            ctx.check("pair %d: the same name can still be added to the other enumeration" % n, ctx.oracle(st == "ok"), repr(r))
            if st == "ok":
                eb.remove("ADDED_NAME")
            ctx.check("pair %d: removing it from the other does not remove it here" % n, getattr(ea, "ADDED_NAME", None) == ctx.oracle(v))
            if ma is not None:
                ma["ADDED_NAME"] = v
                _agree(ctx, ea, ma, "pair %d first: " % n, probe)
                _agree(ctx, eb, mb, "pair %d second: " % n, probe)
        finally:
            if hasattr(ea, "ADDED_NAME"):
                ea.remove("ADDED_NAME")


def obligations(tier):
    from symx.harness import Ob
    obs = []
    kinds = ["int", "dict", "opcode", "str", "none", "enum", "function"]
    plan = [(1, 3), (2, 3), (3, 2)] if tier == "quick" else [(1, 3), (2, 3), (3, 3), (4, 2)]
    for k, nn in plan:
        for form in ("dict", "kwargs"):
            for kind in (kinds if k <= 2 else ["int"]):
                obs.append(Ob("history/k=%d/names=%d/%s/first-value=%s" % (k, nn, form, kind), MOD, "h_history",
                              {"k": k, "form": form, "nnames": nn, "kind": kind,
                               "probe_choice": k == 2 or tier != "quick"}, split=True))
    for same in (True, False):
        obs.append(Ob("opcode-service-action-enums/same-table=%s" % same, MOD, "h_opcode_enums", {"same_table": same}, split=True))
    return obs


CANARIES = {"quick": 10, "thorough": 20}

INFO = {
    "explanation": "The real Enum metaclass (construction from dict / keywords, add, remove, attribute access, reverse "
                   "look-up, keys) runs next to a python dict; operation kind, target enumeration and name are chosen by "
                   "the solver-pruned explorer, integer values are 3-bit solver variables so that every equality pattern "
                   "among values is covered; after every step z3 decides that names, values and reverse look-up agree with "
                   "the dictionary and that the other enumeration is untouched.",
    "functions": ["Enum.__new__", "Enum.__init__", "Enum.__getitem__", "Enum.add", "Enum.remove", "Enum.keys"],
    "bounds": {"history": "k <= 3 quick (2 names at k=3), <= 4 thorough", "values": "3-bit ints; structural kinds: nested "
               "dict, OpCode, str, None, another Enum, a builtin function", "enumerations": "2 alive at once"},
    "outside": ["names that are attributes of type / the Enum metaclass (mro, keys, add, remove) or start with '__'"],
    "assumptions": ["python dict is the reference model"],
}
