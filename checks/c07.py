"""C07 -- a command that did not complete with GOOD status never looks successful.

The real SCSIDevice.execute / ISCSIDevice.execute / SCSI.execute and every facade
method run over the stub bindings.  Solver variables: the 8-bit status (iSCSI), the
binding's outcome (SG_IO), every sense byte, at a chosen position in a sequence of
commands on the same device."""
from spec import cdb_layouts as L
from symx.ctx import Skip

from . import common as K

MOD = "checks.c07"

STATUS_EXC = {0x04: "ConditionsMet", 0x08: "BusyStatus", 0x18: "ReservationConflict", 0x28: "TaskSetFull",
              0x30: "ACAActive", 0x40: "TaskAborted"}  # SAM-5 status codes -> error named after them


class Scenario:
    """first `good` commands complete with GOOD; the next one gets the symbolic outcome"""

    def __init__(self, ctx, good, nsense, poison=True, tag=""):
        self.ctx, self.good, self.nsense, self.poison, self.tag = ctx, good, nsense, poison, tag
        self.n = 0
        self.status = None
        self.sense = None
        self.outcome = None
        self.raised = None
        self.device_data = None

    def _fail_now(self):
        self.n += 1
        return self.n == self.good + 1

    def _poison(self, datain):
        # device-side garbage in the data-in buffer of the failing command: must never be decoded as a result
        if self.poison and datain is not None and hasattr(datain, "__setitem__"):
            try:
                n = len(datain)
            except TypeError:
                return
            k = min(n, 4)
            if k:
                self.device_data = self.ctx.bytes(self.tag + "garbage", k)
                datain[0:k] = self.device_data

    def iscsi(self, env, task):
        if not self._fail_now():
            task.status = 0
            return
        self.status = self.ctx.int(self.tag + "status", 8)
        task.status = self.status
        self.sense = self.ctx.bytes(self.tag + "sense", self.nsense)
        task.raw_sense = self.sense
        if self.status != 0:
            self._poison(task.datain)

    def sgio(self, env, call):
        from stubs import env as E
        if not self._fail_now():
            return 0
        self.outcome = self.ctx.choose(self.tag + "sgio_outcome", ["good", "check-condition", "unspecified-error", "oserror",
                                                                   "typeerror"])
        if self.outcome == 0:
            return 0
        self._poison(call.datain)
        if self.outcome == 1:
            self.sense = self.ctx.bytes(self.tag + "sense", self.nsense)
            self.raised = E.CheckConditionError(self.sense)
        elif self.outcome == 2:
            self.raised = E.UnspecifiedError("transport error (stub)")
        elif self.outcome == 3:
            self.raised = OSError(5, "Input/output error (stub)")
        else:
            self.raised = TypeError("a bytes-like object is required (stub binding, raised after taking the command)")
        raise self.raised


def _spec_sense(sense):
    """(known_format, key, asc, ascq) as SPC-4 4.5 places them; python-level forks on the response code"""
    n = len(sense)
    rc = sense[0] & 0x7F
    if rc == 0x70 or rc == 0x71:
        return True, (sense[2] & 0x0F if n > 2 else 0), (sense[12] if n > 12 else 0), (sense[13] if n > 13 else 0)
    if rc == 0x72 or rc == 0x73:
        return True, (sense[1] & 0x0F if n > 1 else 0), (sense[2] if n > 2 else 0), (sense[3] if n > 3 else 0)
    return False, None, None, None


def _judge(ctx, transport, sc, dev, st, r, raw, cmd_of):
    """the property, for one finished call"""
    if transport == "iscsi":
        status = sc.status
        is_good = (status == 0)
        is_cc = (status == 2)
    else:
        is_good = sc.outcome == 0
        is_cc = sc.outcome == 1
        status = None
    if st == "ok":
        if raw and is_cc:
            c = cmd_of()
            ctx.check("raw sense requested: returning normally requires the unmodified sense bytes on the command",
                      c is not None and c.raw_sense_data is not None and c.raw_sense_data == ctx.oracle(sc.sense))
        else:
            ctx.check("returns normally only if the target reported GOOD", ctx.oracle(is_good))
        return
    ctx.check("a GOOD command does not raise", ctx.oracle(~is_good if not isinstance(is_good, bool) else not is_good), repr(r))
    if is_cc:
        ctx.check("CHECK CONDITION surfaces as the device's CheckCondition error", isinstance(r, dev.CheckCondition), repr(r))
        if isinstance(r, dev.CheckCondition):
            known, key, asc, ascq = _spec_sense(sc.sense)
            if known:
                ctx.check("CheckCondition reports the sense key the target sent",
                          getattr(r, "data", {}).get("sense_key", -1) == ctx.oracle(key))
                ctx.check("CheckCondition reports the ASC the target sent", getattr(r, "asc", -1) == ctx.oracle(asc))
                ctx.check("CheckCondition reports the ASCQ the target sent", getattr(r, "ascq", -1) == ctx.oracle(ascq))
        if raw:
            c = cmd_of()
            if c is not None and c.raw_sense_data is not None:
                ctx.check("raw sense attached is the unmodified sense", c.raw_sense_data == ctx.oracle(sc.sense))
        return
    if transport == "iscsi":
        for code, name in STATUS_EXC.items():
            if status == code:
                ctx.check("status %02Xh raises the error named after it (%s)" % (code, name),
                          type(r) is getattr(dev, name), repr(r))
                return
        ctx.check("any other status raises some error", isinstance(r, Exception))
    else:
        ctx.check("a binding error propagates unchanged", r is ctx.oracle(sc.raised), repr(r))


def _mkdev(transport):
    from stubs import env
    sd, idv = env.install()
    if transport == "sgio":
        return env, sd.SCSIDevice("/dev/sg0")
    return env, idv.ISCSIDevice("iscsi://host/target/0", "iqn.test")


def h_direct(ctx, transport, raw, good, nsense, reuse=False, first_raw=None):
    """device.execute / SCSI.execute with a plain command, failing command at position `good`"""
    from pyscsi.pyscsi.scsi import SCSI
    from pyscsi.pyscsi.scsi_cdb_inquiry import Inquiry
    env, dev = _mkdev(transport)
    sc = Scenario(ctx, good, nsense)
    env.ENV.reset(sc)
    env.ENV.cur_inode = 1
    via_facade_execute = ctx.choose("entry", ["device.execute", "SCSI.execute"])
    cmd = Inquiry(dev.opcodes.INQUIRY, alloclen=8)
    s = None
    if via_facade_execute:
        sc.good += 1  # attaching sends one INQUIRY
        s = SCSI(dev)
    # the command set the device object carries is the attached device's: any of the five
    dev.opcodes = K.get_set(["spc", "sbc", "ssc", "smc", "mmc"][ctx.choose("device command set", ["spc", "sbc", "ssc", "smc", "mmc"])])
    if reuse:
        # the same command object was already executed once and failed with CHECK CONDITION (other sense)
        sc0 = Scenario(ctx, 0, nsense, poison=False, tag="first_")
        env.ENV.scenario = sc0
        st0, r0 = ctx.attempt(dev.execute, cmd, en_raw_sense=raw if first_raw is None else first_raw)
        if transport == "iscsi":
            ctx.assume(sc0.status == 2)
        else:
            ctx.assume(sc0.outcome == 1)
        env.ENV.scenario = sc
    for _ in range(good):
        dev.execute(Inquiry(dev.opcodes.INQUIRY, alloclen=8))
    target = s if s is not None else dev
    n0 = len(env.ENV.sgio_calls) + len(env.ENV.iscsi_tasks)
    st, r = ctx.attempt(target.execute, cmd, en_raw_sense=raw)
    ctx.check("the command goes to the binding exactly once, whatever its outcome (no silent re-send)",
              len(env.ENV.sgio_calls) + len(env.ENV.iscsi_tasks) - n0 == ctx.oracle(1))
    _judge(ctx, transport, sc, dev, st, r, raw, lambda: cmd)


def h_with(ctx, transport, kind, nsense):
    """the failure also leaves a `with` block: neither the device's nor the facade's __exit__ swallows it"""
    from pyscsi.pyscsi.scsi import SCSI
    from pyscsi.pyscsi.scsi_cdb_testunitready import TestUnitReady
    env, dev = _mkdev(transport)
    sc = Scenario(ctx, 1 if kind == "facade" else 0, nsense)
    env.ENV.reset(sc)
    env.ENV.cur_inode = 1
    cmd = TestUnitReady(dev.opcodes.TEST_UNIT_READY)

    def body():
        if kind == "facade":
            with SCSI(dev) as s:
                s.execute(cmd)
        else:
            with dev as d:
                d.execute(cmd)
        return "left the with block normally"
    st, r = ctx.attempt(body)
    _judge(ctx, transport, sc, dev, st, r, False, lambda: cmd)


def h_facade(ctx, transport, cmd, good, nsense):
    from pyscsi.pyscsi.scsi import SCSI
    spec = L.CDB[cmd]
    env, dev = _mkdev(transport)
    sc = Scenario(ctx, good + 1, nsense)  # +1: the attach INQUIRY completes with GOOD
    env.ENV.reset(sc)
    s = SCSI(dev, 512)
    dev.opcodes = K.get_set(K.facade_set_for(spec))
    for _ in range(good):
        s.testunitready()
    seen = []
    orig = dev.execute

    def spy(c, en_raw_sense=False):
        seen.append((c, en_raw_sense))
        return orig(c, en_raw_sense=en_raw_sense)
    dev.execute = spy
    n0 = len(env.ENV.sgio_calls) + len(env.ENV.iscsi_tasks)
    st, r = ctx.attempt(K.facade_concrete_call, s, spec)
    ctx.check("the command goes to the binding exactly once, whatever its outcome (no silent re-send)",
              len(env.ENV.sgio_calls) + len(env.ENV.iscsi_tasks) - n0 == ctx.oracle(1))
    ctx.check("the facade hands the command to the device exactly once", len(seen) == ctx.oracle(1), str(len(seen)))
    if not seen:
        if st == "exc":
            raise r
        return
    c, raw = seen[0]
    failed = (sc.status != 0) if transport == "iscsi" else (sc.outcome != 0)
    if st == "exc" and not failed:
        # GOOD, and the facade then failed to decode this stub's all-zero buffer: not this property's subject
        raise Skip("decode of an all-zero response")
    _judge(ctx, transport, sc, dev, st, r, raw, lambda: c)
    if st == "exc":
        ctx.check("after an error the untouched buffer is not decoded into a result", c.result == {} or c.result is None,
                  repr(c.result)[:80])
    elif failed:
        # only possible when raw sense was requested (judged above): the result must still not come from garbage
        ctx.check("after an error the untouched buffer is not decoded into a result", c.result == {} or c.result is None,
                  repr(c.result)[:80])


def obligations(tier):
    from symx.harness import Ob
    obs = []
    ns = [18, 24] if tier == "quick" else [18, 4, 24, 32, 252]
    for tr in ("sgio", "iscsi"):
        for raw in (False, True):
            for good in ((0, 2) if tier == "quick" else (0, 1, 2, 3)):
                for n in ns:
                    obs.append(Ob("direct/%s/raw=%s/pos=%d/sense=%d" % (tr, raw, good, n), MOD, "h_direct",
                                  {"transport": tr, "raw": raw, "good": good, "nsense": n}))
            for fr in (False, True):
                obs.append(Ob("direct-reused-command/%s/first-raw=%s/raw=%s" % (tr, fr, raw), MOD, "h_direct",
                              {"transport": tr, "raw": raw, "good": 0, "nsense": 18, "reuse": True, "first_raw": fr}))
        for kind in ("device", "facade"):
            obs.append(Ob("with-block/%s/%s" % (tr, kind), MOD, "h_with", {"transport": tr, "kind": kind, "nsense": 18}))
        for cmd, spec in L.CDB.items():
            if not spec["facade"]:
                continue
            for good in ((0,) if tier == "quick" else (0, 2)):
                obs.append(Ob("facade/%s/%s/pos=%d" % (tr, cmd, good), MOD, "h_facade",
                              {"transport": tr, "cmd": cmd, "good": good, "nsense": 18}))
    return obs


CANARIES = {"quick": 24, "thorough": None}

INFO = {
    "explanation": "Both real device classes and all 38 facade methods run over stub bindings whose outcome is a solver "
                   "variable: the iSCSI status byte ranges over all 256 values (the explorer forks on the library's own "
                   "comparisons, z3 covers the values inside each class), every sense byte is symbolic; the SG_IO binding "
                   "chooses between return / CheckConditionError / UnspecifiedError / OSError. Per path the property is "
                   "decided by z3: normal return implies GOOD, CHECK CONDITION implies CheckCondition with the target's "
                   "key/ASC/ASCQ, every other status its named error, and no result is decoded from device garbage. The device "
                   "object carries any of the five command sets (solver choice); the failure also has to leave a `with` block "
                   "of the device and of the facade.",
    "functions": ["SCSIDevice.execute", "ISCSIDevice.execute", "SCSI.execute", "SCSI.<all 38 facade methods>",
                  "SCSICheckCondition.__init__", "SCSIDeviceExceptionMeta"],
    "bounds": {"status": "all 256 values", "sense": "18 bytes quick; 4/18/32/252 thorough, all contents",
               "position": "failing command after 0 or 2 (thorough 0..3) good commands on the same device; "
                           "a command object executed twice", "transports": "SG_IO and iSCSI stubs"},
    "outside": ["an iSCSI task that reports CHECK CONDITION without any sense data (outside libiscsi's documented behaviour)",
                "status bytes the SG_IO binding does not expose (it raises or returns)"],
    "assumptions": ["contracts of stubs/env.py", "SAM-5 status code table"],
}
