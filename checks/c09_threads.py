"""C09 (b) -- thread interleavings, decided by the solver instead of enumerating schedules.

Each thread builds and uses its own command (construct, decode its CDB with its class,
re-encode).  Through the trace-mode loader every access to shared memory (class and
module attributes, objects reachable from module globals / class dictionaries / function
defaults) is logged during a *solo* run of each thread.  The interleaving is then a z3
problem: one integer clock per step (a step = consecutive shared accesses on one source
line), program order inside a thread, reads-from = latest earlier write to the location.
Query: is there an order in which a read of one thread takes its value from a write of the
other thread whose value differs from what it read solo?  unsat => in every line-level
interleaving both threads observe exactly their solo values (up to the first foreign read
both threads follow their solo traces, so the solo traces suffice).  sat => the model is a
schedule; it is replayed with two real threads in plain python (sys.settrace gating at
the scheduled source lines) and the outcome compared with the solo outcome."""
import json
import os
import sys
import threading
import time

from spec import cdb_layouts as L

from . import common as K

MOD = "checks.c09_threads"
MAX_SCHEDULES = 14
PAIR = []   # per candidate: ((reader thread, step), (writer thread, step))
META = []   # per reads-from candidate: (reader thread, read site, write site, an intermediate state?)
LABEL = "no line-level interleaving of the two threads changes what either observes"


def _prog(cmd):
    """the thread program: build own command, decode own CDB, re-encode; returns the observation"""
    spec = L.CDB[cmd]
    st = "spc" if "spc" in spec["sets"] else list(spec["sets"])[0]
    opcode = K.lookup_opcode(spec, st)
    a, e = K.concrete_args(spec)
    for k in a:
        if k not in ("t_length", "t_dir", "count", "alloclen", "alloc_len"):
            a[k] = 1 if L.width(spec["fields"][k]) == 1 else 3
    cls = K.get_class(spec)
    # "use" includes the command's parameter data: EXTENDED COPY marshals an identification descriptor and a segment,
    # INQUIRY decodes and rebuilds a Device Identification page (concrete values; the schedule is what is symbolic)
    import copy
    from symx.ctx import ConcreteCtx
    cc = ConcreteCtx({})
    xc = None
    page = None
    if cmd.startswith("EXTENDED COPY"):
        from . import c05
        lid = 1 if cmd.endswith("(LID1)") else 4
        key = "target_descriptor_list" if lid == 1 else "cscd_descriptor_list"
        xc = {key: [c05._target(cc, lid, 0, "naa5", "t_")], "segment_descriptor_list": [c05._segment(cc, lid, 2, "s_")]}
    if cmd == "INQUIRY":
        from spec import responses as R
        page = bytearray(R.vpd_device_identification(cc, ["t10", "naa5"], concrete_headers=True)[0])

    def run():
        if xc is not None:
            c = cls(opcode, **copy.deepcopy(xc))
        else:
            c = K.build(spec, opcode, a, e)
        d = dict(cls.unmarshall_cdb(c.cdb))
        raw = cls.marshall_cdb(d)
        extra = bytes(c.dataout) if xc is not None else b""
        if page is not None:
            dec = cls.unmarshall_datain(bytearray(page), evpd=1)
            extra = bytes(cls.marshall_datain(dec))
        return (bytes(c.cdb), sorted((k, int(v) if not isinstance(v, (bytes, bytearray)) else bytes(v)) for k, v in d.items()),
                bytes(raw), len(c.datain), extra)
    return run


def _attempt(fn):
    try:
        return ("ok", fn())
    except Exception as e:  # noqa
        return ("exc", type(e).__name__)


def _steps(events):
    """group consecutive events on the same source line into steps"""
    steps = []
    for ev in events:
        if steps and steps[-1]["site"] == ev[3]:
            steps[-1]["ev"].append(ev)
        else:
            steps.append({"site": ev[3], "ev": [ev]})
    return steps


def _encode(steps):
    """z3 encoding; returns (solver, clocks, disjuncts count)"""
    import z3
    s = z3.Solver()
    s.set("timeout", 60000)
    clk = [[z3.Int("c%d_%d" % (t, k)) for k in range(len(steps[t]))] for t in (0, 1)]
    for t in (0, 1):
        for k in range(len(clk[t])):
            s.add(clk[t][k] >= 0)
            if k:
                s.add(clk[t][k - 1] < clk[t][k])
    for x in clk[0]:
        for y in clk[1]:
            s.add(x != y)
    writes = {0: {}, 1: {}}
    for t in (0, 1):
        for k, stp in enumerate(steps[t]):
            for p, (kind, loc, vk, site) in enumerate(stp["ev"]):
                if kind == "W":
                    writes[t].setdefault(loc, []).append((k, p, vk))
                    if loc[1] == "*":
                        pass
    disj = []
    for t in (0, 1):
        u = 1 - t
        for k, stp in enumerate(steps[t]):
            for p, (kind, loc, vk, site) in enumerate(stp["ev"]):
                if kind != "R":
                    continue
                # candidate foreign writes: same location, or a whole-container mutation of the same object
                if loc[1] == "*":   # a read of the whole container: any foreign write into it may be seen
                    cands = [w for l2, ws in writes[u].items() if l2[0] == loc[0] for w in ws]
                else:
                    cands = list(writes[u].get(loc, [])) + [w for l2, ws in writes[u].items()
                                                            if l2[0] == loc[0] and l2[1] == "*" for w in ws]
                if not cands:
                    continue
                if any(k2 == k and p2 < p for k2, p2, _ in writes[t].get(loc, [])):
                    continue  # own write earlier on the same line always wins
                for (j, pj, wv) in cands:
                    if wv == vk:
                        continue
                    cond = [clk[u][j] < clk[t][k]]
                    if loc[1] == "*":
                        # the container as of foreign write j: no later foreign write into it before the read
                        later = [j2 for l2, ws in writes[u].items() if l2[0] == loc[0] for (j2, _p, _v) in ws if j2 > j]
                        for j2 in later:
                            cond.append(z3.Not(clk[u][j2] < clk[t][k]))
                        disj.append(z3.And(*cond))
                        META.append((t, site, steps[u][j]["site"], bool(later)))
                        PAIR.append(((t, k), (u, j)))
                        continue
                    for (j2, p2, _) in writes[u].get(loc, []):
                        if j2 > j:
                            cond.append(z3.Not(clk[u][j2] < clk[t][k]))
                    for (k2, p2, _) in writes[t].get(loc, []):
                        if k2 < k:
                            cond.append(z3.Not(clk[u][j] < clk[t][k2]))
                    disj.append(z3.And(*cond))
                    META.append((t, site, steps[u][j]["site"], any(j2 > j for (j2, _p, _v) in writes[u].get(loc, []))))
                    PAIR.append(((t, k), (u, j)))
    return s, clk, len(disj), disj


# ------------------------------------------------------------------ plain-python replay of a schedule
def run_schedule(progs, schedule, repo, timeout=1.0):
    """run the two thread programs under a line-gating scheduler; schedule = [[tid, file, line], ...].
    Entry i may run once every earlier entry of the *other* thread is done.  A thread that has left its solo trace
    (after reading a foreign value -- the divergence we are looking for) re-synchronises at the next scheduled
    line it does reach; entries it skipped count as done, and nobody waits longer than `timeout` for an entry."""
    cv = threading.Condition()
    done = [False] * len(schedule)
    results = [None, None]
    per = {0: [i for i, s in enumerate(schedule) if s[0] == 0], 1: [i for i, s in enumerate(schedule) if s[0] == 1]}
    t_end = time.time() + 60

    def make_tracer(tid):
        st = {"next": 0, "in": None, "depth": 0, "stepdepth": 0}

        def finish_step():
            with cv:
                if st["in"] is not None:
                    done[st["in"]] = True
                st["in"] = None
                cv.notify_all()

        def at_line(fn, lineno):
            if not fn.startswith(repo):
                return
            site = [fn[len(repo):].lstrip("/"), lineno]
            if st["in"] is not None and site != schedule[st["in"]][1:]:
                # the step ends when control moves to another line of the same frame (or an outer one), or when a
                # callee reaches the line of this thread's next scheduled step; lines of callees that touch no shared
                # memory do not end it (the rest of the statement still belongs to the step)
                mine = per[tid]
                if st["depth"] <= st["stepdepth"] or (st["next"] < len(mine) and schedule[mine[st["next"]]][1:] == site):
                    finish_step()
            if st["in"] is None:
                mine = per[tid]
                hit = None
                # strictly the next scheduled line of this thread: a 'line' event for a later entry's site may simply
                # precede calls that produce the entries in between.  A thread that has left its solo trace never
                # matches again and runs free -- the others stop waiting for it after `timeout`.
                if st["next"] < len(mine) and schedule[mine[st["next"]]][1:] == site:
                    hit = st["next"]
                if hit is None:
                    return
                gi = mine[hit]
                with cv:
                    for n in range(st["next"], hit):
                        done[mine[n]] = True      # lines this thread no longer executes
                    cv.notify_all()
                    others = [i for i in range(gi) if schedule[i][0] != tid]
                    ok = cv.wait_for(lambda: all(done[i] for i in others), timeout=timeout if time.time() < t_end else 0)
                    if not ok:
                        for i in others:
                            done[i] = True        # the other thread has left its solo trace: do not wait for it
                        cv.notify_all()
                st["in"] = gi
                st["next"] = hit + 1
                st["stepdepth"] = st["depth"]

        def local(frame, event, arg):
            if event == "line":
                at_line(frame.f_code.co_filename, frame.f_lineno)
            elif event == "return":
                st["depth"] -= 1
                if st["in"] is not None and st["depth"] < st["stepdepth"]:
                    finish_step()
                back = frame.f_back
                if back is not None:
                    at_line(back.f_code.co_filename, back.f_lineno)
            return local

        def tracer(frame, event, arg):
            if event == "call":
                st["depth"] += 1
                return local
            return None
        return tracer, st, finish_step

    def body(tid):
        tracer, st, fin = make_tracer(tid)
        sys.settrace(tracer)
        try:
            results[tid] = _attempt(progs[tid])
        finally:
            sys.settrace(None)
            fin()
            with cv:
                for gi in per[tid]:
                    done[gi] = True
                cv.notify_all()
    ths = [threading.Thread(target=body, args=(i,)) for i in (0, 1)]
    for t in ths:
        t.start()
    for t in ths:
        t.join(90)
    return results, any(t.is_alive() for t in ths)


def h_threads(ctx, a, b):
    progs = [_prog(a), _prog(b)]
    if not ctx.symbolic:
        # concrete replay: the recorded schedule with real threads runs first, in a forked child, from the cold state
        # of a fresh process (lazily filled caches are part of what may race); the solo outcomes are computed
        # afterwards in the parent
        repo = os.environ.get("VERIF_REPO", "/repo")
        import multiprocessing as mp
        mpc = mp.get_context("fork")
        rx, tx = mpc.Pipe(duplex=False)

        def child():
            try:
                tx.send(run_schedule(progs, ctx.inputs["schedule"], repo))
            finally:
                os._exit(0)
        p = mpc.Process(target=child)
        p.start()
        tx.close()
        got, dead = rx.recv() if rx.poll(120) else (None, True)
        p.join(5)
        solos = []
        for i in (0, 1):  # each solo outcome from a cold state as well
            rx2, tx2 = mpc.Pipe(duplex=False)

            def solo_child(i=i, tx2=tx2):
                try:
                    tx2.send(_attempt(progs[i]))
                finally:
                    os._exit(0)
            q = mpc.Process(target=solo_child)
            q.start()
            tx2.close()
            solos.append(rx2.recv() if rx2.poll(60) else None)
            q.join(5)
        ctx.check(LABEL, got == solos and not dead, "solo=%r interleaved=%r" % (solos, got))
        return
    from symx import loader, trace
    if not loader.TRACE:
        # (re)load the library in trace mode: this worker is a fresh fork used for this obligation only
        for m in [m for m in sys.modules if m == "pyscsi" or m.startswith("pyscsi.")]:
            del sys.modules[m]
        loader.TRACE = True
        progs = [_prog(a), _prog(b)]
    from symx import explore as _ex
    saved, _ex._CUR = _ex._CUR, None   # the thread programs are concrete: run them outside symbolic mode
    try:
        # warm-up (imports) is traced too and undone afterwards, so that every run below starts from the same cold
        # state: lazily filled caches and memo tables are shared memory that can race
        tr = trace.Tracer(trace.shared_ids())
        trace.TR = tr
        try:
            _attempt(progs[0]), _attempt(progs[1])
        finally:
            trace.TR = None
        trace.restore(tr)
        tr.shared |= trace.shared_ids()
        solo, steps = [], []
        for i in (0, 1):
            tr.events = {}
            trace.TR = tr
            try:
                solo.append(_attempt(progs[i]))
            finally:
                trace.TR = None
            steps.append(_steps(tr.events.get(threading.get_ident(), [])))
            trace.restore(tr)
    finally:
        _ex._CUR = saved
    ctx.note("events", [sum(len(s["ev"]) for s in st) for st in steps])
    solver, clk, nd, disj = _encode(steps)
    ctx.note("rf_candidates", nd)
    import z3
    repo = loader.REPO.rstrip("/")
    benign = 0
    # is there any interleaving at all in which some read takes a differing foreign value?
    solver.push()
    solver.add(z3.Or(*disj) if disj else z3.BoolVal(False))
    r = solver.check()
    solver.pop()
    ctx.ex.stats.solver_calls += 1
    if r == z3.unsat:
        ctx.check(LABEL, True, decided_by_solver=True)
        return
    # yes: take the candidates one by one (intermediate states of the writer first, one representative per pair of
    # source lines and kind), let the solver produce a schedule realising exactly that reads-from, and run it
    order_c = sorted(range(len(disj)), key=lambda i: (not META[i][3], i))
    seen_kind, todo = {}, []
    for i in order_c:
        kkey = META[i]
        seen_kind[kkey] = seen_kind.get(kkey, 0) + 1
        if seen_kind[kkey] <= 3:
            todo.append(i)
    exhausted = len(todo) <= MAX_SCHEDULES
    for i in todo[:MAX_SCHEDULES]:
        # first choice: the reader's line runs *immediately* after the writer's line (the writer has made no further
        # progress: half-finished updates are what a racing reader sees); otherwise any schedule realising the pair
        (rt_, rk), (wu, wj) = PAIR[i]
        cr, cw = clk[rt_][rk], clk[wu][wj]
        imm = [z3.Or(c < cw, c > cr) for t2 in (0, 1) for k2, c in enumerate(clk[t2]) if (t2, k2) not in ((rt_, rk), (wu, wj))]
        # ... and, first of all, the reader then runs on to its end before the writer continues (a writer preempted
        # in the middle of an update is the classic window)
        first = [clk[rt_][k2] < clk[wu][j2] for k2 in range(rk + 1, len(clk[rt_])) for j2 in range(wj + 1, len(clk[wu]))][:4000]
        if len(clk[rt_]) > rk + 1 and len(clk[wu]) > wj + 1:
            first = [clk[rt_][-1] < clk[wu][wj + 1]]
        m = None
        for extra in (imm + first, imm, []):
            solver.push()
            solver.add(disj[i])
            solver.add(*extra)
            r = solver.check()
            ctx.ex.stats.solver_calls += 1
            if r == z3.sat:
                m = solver.model()
            solver.pop()
            if m is not None:
                break
        if m is None:
            continue
        order = sorted(((m.eval(clk[t][k], model_completion=True).as_long(), t, k) for t in (0, 1) for k in range(len(clk[t]))))
        sched = [[t, steps[t][k]["site"][0][len(repo):].lstrip("/"), steps[t][k]["site"][1]] for _, t, k in order]
        saved, _ex._CUR = _ex._CUR, None
        try:
            trace.restore(tr)
            got, dead = run_schedule(progs, sched, repo, timeout=0.5)
            trace.restore(tr)
        finally:
            _ex._CUR = saved
        if got != solo and not dead:
            ctx.record("schedule", sched)
            ctx.check(LABEL, False, "schedule of %d steps: solo=%r interleaved=%r" % (len(sched), solo, got))
            return
        benign += 1
    ctx.note("benign_foreign_reads_refuted_by_replay", benign)
    if exhausted and len(todo) == len(disj):
        # every reads-from candidate was realised by a schedule and none changed any observation
        ctx.check(LABEL, True, decided_by_solver=True)
        return
    # candidates left but none confirmed within the cap (or solver unknown): inconclusive, not a pass
    ctx.note("benign_foreign_reads_refuted_by_replay", benign)
    ctx.inconclusive(LABEL, "%d candidate interleavings replayed without effect; more remain (cap %d)" % (benign, MAX_SCHEDULES))


def obligations(tier):
    from symx.harness import Ob
    reps = ["READ(10)", "READ(16)", "INQUIRY", "MODE SENSE(6)", "ATA PASS-THROUGH(16)", "READ ELEMENT STATUS", "TEST UNIT READY",
            "PERSISTENT RESERVE OUT", "EXTENDED COPY(LID1)"]
    cmds = reps if tier == "quick" else list(L.CDB)
    obs = []
    for i, a in enumerate(cmds):
        for b in cmds[i:]:
            obs.append(Ob("threads/%s||%s" % (a, b), MOD, "h_threads", {"a": a, "b": b}, canary=False))
    return obs
