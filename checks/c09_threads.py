"""C09 (b) -- thread interleavings, decided by the solver instead of enumerating schedules.

Each thread builds and uses its own command (construct, decode its CDB with its class,
re-encode).  Through the trace-mode loader every access to shared memory (class and
module attributes, objects reachable from module globals / class dictionaries / function
defaults) is logged during a *solo* run of each thread.  The interleaving is then a z3
problem: one integer clock per step (a step = consecutive shared accesses on one source
line), program order inside a thread, reads-from = latest earlier write to the location.
Query: is there an order in which a read of one thread takes its value from a write of the
other thread whose value differs from what it read solo?  unsat => in every line-level
interleaving both threads observe exactly their solo values (up to the first foreign read
both threads follow their solo traces, so the solo traces suffice).  sat => the model is a
schedule; it is replayed with two real threads in plain python (sys.settrace gating at
the scheduled source lines) and the outcome compared with the solo outcome."""
import json
import os
import sys
import threading

from spec import cdb_layouts as L

from . import common as K

MOD = "checks.c09_threads"
MAX_SCHEDULES = 16
DEBUG = []
LABEL = "no line-level interleaving of the two threads changes what either observes"


def _prog(cmd):
    """the thread program: build own command, decode own CDB, re-encode; returns the observation"""
    spec = L.CDB[cmd]
    st = "spc" if "spc" in spec["sets"] else list(spec["sets"])[0]
    opcode = K.lookup_opcode(spec, st)
    a, e = K.concrete_args(spec)
    for k in a:
        if k not in ("t_length", "t_dir", "count", "alloclen", "alloc_len"):
            a[k] = 1 if L.width(spec["fields"][k]) == 1 else 3
    cls = K.get_class(spec)

    def run():
        c = K.build(spec, opcode, a, e)
        d = dict(cls.unmarshall_cdb(c.cdb))
        raw = cls.marshall_cdb(d)
        return (bytes(c.cdb), sorted((k, int(v) if not isinstance(v, (bytes, bytearray)) else bytes(v)) for k, v in d.items()),
                bytes(raw), len(c.datain))
    return run


def _attempt(fn):
    try:
        return ("ok", fn())
    except Exception as e:  # noqa
        return ("exc", type(e).__name__)


def _steps(events):
    """group consecutive events on the same source line into steps"""
    steps = []
    for ev in events:
        if steps and steps[-1]["site"] == ev[3]:
            steps[-1]["ev"].append(ev)
        else:
            steps.append({"site": ev[3], "ev": [ev]})
    return steps


def _encode(steps):
    """z3 encoding; returns (solver, clocks, disjuncts count)"""
    import z3
    s = z3.Solver()
    s.set("timeout", 60000)
    clk = [[z3.Int("c%d_%d" % (t, k)) for k in range(len(steps[t]))] for t in (0, 1)]
    for t in (0, 1):
        for k in range(len(clk[t])):
            s.add(clk[t][k] >= 0)
            if k:
                s.add(clk[t][k - 1] < clk[t][k])
    for x in clk[0]:
        for y in clk[1]:
            s.add(x != y)
    writes = {0: {}, 1: {}}
    for t in (0, 1):
        for k, stp in enumerate(steps[t]):
            for p, (kind, loc, vk, site) in enumerate(stp["ev"]):
                if kind == "W":
                    writes[t].setdefault(loc, []).append((k, p, vk))
                    if loc[1] == "*":
                        pass
    disj = []
    for t in (0, 1):
        u = 1 - t
        for k, stp in enumerate(steps[t]):
            for p, (kind, loc, vk, site) in enumerate(stp["ev"]):
                if kind != "R":
                    continue
                # candidate foreign writes: same location, or a whole-container mutation of the same object
                cands = list(writes[u].get(loc, [])) + [w for l2, ws in writes[u].items() if l2[0] == loc[0] and l2[1] == "*" for w in ws]
                if not cands:
                    continue
                if any(k2 == k and p2 < p for k2, p2, _ in writes[t].get(loc, [])):
                    continue  # own write earlier on the same line always wins
                for (j, pj, wv) in cands:
                    if wv == vk:
                        continue
                    cond = [clk[u][j] < clk[t][k]]
                    for (j2, p2, _) in writes[u].get(loc, []):
                        if j2 > j:
                            cond.append(z3.Not(clk[u][j2] < clk[t][k]))
                    for (k2, p2, _) in writes[t].get(loc, []):
                        if k2 < k:
                            cond.append(z3.Not(clk[u][j] < clk[t][k2]))
                    disj.append(z3.And(*cond))
                    DEBUG.append((t, loc[1], vk, wv, site, steps[u][j]["site"]))
    if disj:
        s.add(z3.Or(*disj))
    return s, clk, len(disj), disj


# ------------------------------------------------------------------ plain-python replay of a schedule
def run_schedule(progs, schedule, repo, timeout=20.0):
    """run the two thread programs under a line-gating scheduler; schedule = [[tid, file, line], ...]"""
    cv = threading.Condition()
    state = {"idx": 0, "dead": False}
    results = [None, None]
    per = {0: [i for i, s in enumerate(schedule) if s[0] == 0], 1: [i for i, s in enumerate(schedule) if s[0] == 1]}

    def make_tracer(tid):
        st = {"next": 0, "in": None, "depth": 0, "stepdepth": 0}

        def finish_step():
            with cv:
                if st["in"] is not None and state["idx"] == st["in"]:
                    state["idx"] += 1
                st["in"] = None
                cv.notify_all()

        def at_line(fn, lineno):
            """the thread is about to execute (or to continue executing, after a call returned) this source line"""
            if not fn.startswith(repo):
                return
            site = [fn[len(repo):].lstrip("/"), lineno]
            if st["in"] is not None and site != schedule[st["in"]][1:] and st["depth"] <= st["stepdepth"]:
                finish_step()
            if st["in"] is None and st["next"] < len(per[tid]):
                gi = per[tid][st["next"]]
                if schedule[gi][1:] == site:
                    with cv:
                        ok = cv.wait_for(lambda: state["idx"] == gi or state["dead"], timeout=timeout)
                        if not ok:
                            state["dead"] = True
                            cv.notify_all()
                    st["in"] = gi
                    st["next"] += 1
                    st["stepdepth"] = st["depth"]

        def local(frame, event, arg):
            if event == "line":
                at_line(frame.f_code.co_filename, frame.f_lineno)
            elif event == "return":
                st["depth"] -= 1
                if st["in"] is not None and st["depth"] < st["stepdepth"]:
                    finish_step()
                back = frame.f_back
                if back is not None:
                    # the caller resumes its current line (no new 'line' event is generated for it)
                    at_line(back.f_code.co_filename, back.f_lineno)
            return local

        def tracer(frame, event, arg):
            if event == "call":
                st["depth"] += 1
                return local
            return None
        return tracer, st, finish_step

    def body(tid):
        tracer, st, fin = make_tracer(tid)
        sys.settrace(tracer)
        try:
            results[tid] = _attempt(progs[tid])
        finally:
            sys.settrace(None)
            fin()
            # steps of this thread that were never reached must not block the other one
            with cv:
                while st["next"] < len(per[tid]):
                    gi = per[tid][st["next"]]
                    cv.wait_for(lambda: state["idx"] >= gi or state["dead"], timeout=timeout)
                    if state["idx"] == gi:
                        state["idx"] += 1
                    st["next"] += 1
                    cv.notify_all()
    ths = [threading.Thread(target=body, args=(i,)) for i in (0, 1)]
    for t in ths:
        t.start()
    for t in ths:
        t.join(timeout * 3)
    return results, state["dead"]


def h_threads(ctx, a, b):
    progs = [_prog(a), _prog(b)]
    if not ctx.symbolic:
        # concrete replay: the recorded schedule with real threads runs first, in a forked child, from the cold state
        # of a fresh process (lazily filled caches are part of what may race); the solo outcomes are computed
        # afterwards in the parent
        repo = os.environ.get("VERIF_REPO", "/repo")
        import multiprocessing as mp
        mpc = mp.get_context("fork")
        rx, tx = mpc.Pipe(duplex=False)

        def child():
            try:
                tx.send(run_schedule(progs, ctx.inputs["schedule"], repo))
            finally:
                os._exit(0)
        p = mpc.Process(target=child)
        p.start()
        tx.close()
        got, dead = rx.recv() if rx.poll(120) else (None, True)
        p.join(5)
        solos = []
        for i in (0, 1):  # each solo outcome from a cold state as well
            rx2, tx2 = mpc.Pipe(duplex=False)

            def solo_child(i=i, tx2=tx2):
                try:
                    tx2.send(_attempt(progs[i]))
                finally:
                    os._exit(0)
            q = mpc.Process(target=solo_child)
            q.start()
            tx2.close()
            solos.append(rx2.recv() if rx2.poll(60) else None)
            q.join(5)
        ctx.check(LABEL, got == solos and not dead, "solo=%r interleaved=%r" % (solos, got))
        return
    from symx import loader, trace
    if not loader.TRACE:
        # (re)load the library in trace mode: this worker is a fresh fork used for this obligation only
        for m in [m for m in sys.modules if m == "pyscsi" or m.startswith("pyscsi.")]:
            del sys.modules[m]
        loader.TRACE = True
        progs = [_prog(a), _prog(b)]
    from symx import explore as _ex
    saved, _ex._CUR = _ex._CUR, None   # the thread programs are concrete: run them outside symbolic mode
    try:
        # warm-up (imports) is traced too and undone afterwards, so that every run below starts from the same cold
        # state: lazily filled caches and memo tables are shared memory that can race
        tr = trace.Tracer(trace.shared_ids())
        trace.TR = tr
        try:
            _attempt(progs[0]), _attempt(progs[1])
        finally:
            trace.TR = None
        trace.restore(tr)
        tr.shared |= trace.shared_ids()
        solo, steps = [], []
        for i in (0, 1):
            tr.events = {}
            trace.TR = tr
            try:
                solo.append(_attempt(progs[i]))
            finally:
                trace.TR = None
            steps.append(_steps(tr.events.get(threading.get_ident(), [])))
            trace.restore(tr)
    finally:
        _ex._CUR = saved
    ctx.note("events", [sum(len(s["ev"]) for s in st) for st in steps])
    ctx.note("item_events", [sum(1 for s in st for e in s["ev"] if str(e[1][1]).startswith("[")) for st in steps])
    solver, clk, nd, disj = _encode(steps)
    ctx.note("rf_candidates", nd)
    import z3
    if nd == 0:
        solver.add(z3.BoolVal(False))  # empty disjunction: no read can take a differing foreign value
    repo = loader.REPO.rstrip("/")
    benign = 0
    for attempt in range(MAX_SCHEDULES):
        r = solver.check()
        ctx.ex.stats.solver_calls += 1
        if r == z3.unsat:
            ctx.note("benign_foreign_reads_refuted_by_replay", benign)
            ctx.check(LABEL, True, decided_by_solver=True)
            return
        if r != z3.sat:
            break
        m = solver.model()
        order = sorted(((m.eval(clk[t][k], model_completion=True).as_long(), t, k) for t in (0, 1) for k in range(len(clk[t]))))
        sched = [[t, steps[t][k]["site"][0][len(repo):].lstrip("/"), steps[t][k]["site"][1]] for _, t, k in order]
        # does this interleaving change what a thread observes?  (a read of a different but equivalent value is benign)
        saved, _ex._CUR = _ex._CUR, None
        try:
            trace.restore(tr)
            got, dead = run_schedule(progs, sched, repo, timeout=5.0)
            trace.restore(tr)
        finally:
            _ex._CUR = saved
        if got != solo and not dead:
            ctx.record("schedule", sched)
            ctx.check(LABEL, False, "schedule of %d steps: solo=%r interleaved=%r" % (len(sched), solo, got))
            return
        benign += 1
        # exclude the reads-from pairs this model realises and ask for another interleaving
        solver.add(z3.And(*[z3.Not(d) for d in disj if z3.is_true(m.eval(d, model_completion=True))]))
    # candidates left but none confirmed within the cap (or solver unknown): inconclusive, not a pass
    ctx.note("benign_foreign_reads_refuted_by_replay", benign)
    ctx.inconclusive(LABEL, "%d candidate interleavings replayed without effect; more remain (cap %d)" % (benign, MAX_SCHEDULES))


def obligations(tier):
    from symx.harness import Ob
    reps = ["READ(10)", "READ(16)", "INQUIRY", "MODE SENSE(6)", "ATA PASS-THROUGH(16)", "READ ELEMENT STATUS", "TEST UNIT READY",
            "PERSISTENT RESERVE OUT", "EXTENDED COPY(LID1)"]
    cmds = reps if tier == "quick" else list(L.CDB)
    obs = []
    for i, a in enumerate(cmds):
        for b in cmds[i:]:
            obs.append(Ob("threads/%s||%s" % (a, b), MOD, "h_threads", {"a": a, "b": b}, canary=False))
    return obs
