"""placeholder replaced below"""
def obligations(tier):
    return []
