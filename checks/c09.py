"""C09 -- command objects are isolated from one another, in any order or interleaving.

(a) Sequential histories, symbolically: for every ordered pair (triple in the thorough
    tier) of command classes, A is built and observed (cdb, buffers, A.unmarshall_cdb,
    A.marshall_cdb) before and after other commands are created and used; every
    observation must be equal, as a solver term, to the solo observation.
(b) Thread interleavings, solver-based: see checks/c09_threads.py (imported below)."""
from spec import cdb_layouts as L

from . import common as K
from .respcommon import same

MOD = "checks.c09"


def _build(ctx, cmd, tag, symbolic=True):
    spec = L.CDB[cmd]
    st = "spc" if "spc" in spec["sets"] else list(spec["sets"])[0]
    opcode = K.lookup_opcode(spec, st)
    if symbolic:
        args = K.sym_args(ctx, spec, prefix=tag)
        extra = {}
        for k, kind in spec["extra"].items():
            if kind in ("blocksize", "blocksize-kw"):
                extra[k] = 512
            elif kind == "data":
                extra[k] = bytearray(b"\x01\x02\x03\x04")
            elif kind == "modepage":
                extra[k] = {"medium_type": 0, "device_specific_parameter": 0,
                            "mode_pages": [{"ps": 0, "spf": 0, "page_code": 0x0A, "tst": 0, "swp": 1}]}
        if cmd.startswith("ATA"):
            ctx.assume(args["t_length"] != 3)
    else:
        args, extra = K.concrete_args(spec)
    c = K.build(spec, opcode, args, extra)
    return spec, K.get_class(spec), c


def _observe(cls, c, probe_dict):
    # (copies: a later call must not be able to change what was observed earlier)
    return {"cdb": list(c.cdb), "decoded": dict(cls.unmarshall_cdb(c.cdb)), "encoded": list(cls.marshall_cdb(probe_dict)),
            "datain_len": c.datain.sym_len() if hasattr(c.datain, "sym_len") else len(c.datain),
            "dataout": list(c.dataout) if not hasattr(c.dataout, "symlen") or c.dataout.symlen is None else "sym"}


def _same_obs(ctx, label, now, solo):
    ctx.check(label + ": the command's CDB is unchanged", same(now["cdb"], ctx.oracle_struct(solo["cdb"])))
    ctx.check(label + ": decoding a CDB with the class gives the same result", same(now["decoded"], ctx.oracle_struct(solo["decoded"])))
    ctx.check(label + ": encoding with the class gives the same bytes", same(now["encoded"], ctx.oracle_struct(solo["encoded"])))
    ctx.check(label + ": buffers unchanged", same(now["datain_len"], solo["datain_len"]) if True else True)
    ctx.check(label + ": data-out unchanged", same(now["dataout"], solo["dataout"]))


def h_pairs(ctx, a, others):
    spec, cls, ca = _build(ctx, a, "a_")
    probe = dict(cls.unmarshall_cdb(ca.cdb))
    solo = _observe(cls, ca, probe)
    ctx.check("repeating a marshalling call with equal inputs yields equal bytes",
              same(list(cls.marshall_cdb(probe)), ctx.oracle_struct(solo["encoded"])))
    for b in others:
        specb, clsb, cb = _build(ctx, b, "b_", symbolic=False)
        # use the other command: encode / decode with its class
        own = clsb.unmarshall_cdb(cb.cdb)
        clsb.marshall_cdb(own)
        if len(cb.cdb) == len(ca.cdb) and clsb is not cls:
            # the other class decodes the very bytes this command's class has decoded before: what it returns is
            # its own layout's view (its own field names), not an earlier answer for the same bytes
            cross = clsb.unmarshall_cdb(ca.cdb)
            ctx.check("decoding the same bytes with %s yields that class's own fields" % b,
                      set(cross.keys()) == set(own.keys()), "%s vs %s" % (sorted(cross.keys()), sorted(own.keys())))
        _same_obs(ctx, "after creating and using %s" % b, _observe(cls, ca, probe), solo)
        del cb
    # a construction that fails half-way (an argument the encoder cannot take) must not disturb existing commands
    a0, e0 = K.concrete_args(spec)
    for bad in list(a0)[:2]:
        st_name = "spc" if "spc" in spec["sets"] else list(spec["sets"])[0]
        st, r = ctx.attempt(K.build, spec, K.lookup_opcode(spec, st_name), dict(a0, **{bad: "not-a-number"}), e0)
        _same_obs(ctx, "after a failed construction (%s)" % bad, _observe(cls, ca, probe), solo)
    # another command of the *same* class with other arguments does not change the first one
    spec3, cls3, ca3 = _build(ctx, a, "c_", symbolic=False)
    _same_obs(ctx, "after another command of the same class", _observe(cls, ca, probe), solo)
    # editing a command's own CDB in place (e.g. setting the control byte) stays local to that command
    if len(ca3.cdb):
        ca3.cdb[len(ca3.cdb) - 1] = ca3.cdb[len(ca3.cdb) - 1] ^ 0xFF
        ca3.cdb[0] = ca3.cdb[0] ^ 0x80
    spec4, cls4, ca4 = _build(ctx, a, "c_", symbolic=False)
    ctx.check("a command built with equal arguments is not affected by in-place edits of an earlier command's CDB",
              same(list(ca4.cdb)[1:-1], ctx.oracle_struct(list(ca3.cdb)[1:-1])) & (ca4.cdb[0] == (ca3.cdb[0] ^ 0x80))
              if len(ca3.cdb) else True)
    _same_obs(ctx, "after editing another command's CDB in place", _observe(cls, ca, probe), solo)
    # a second instance of A built after all the others encodes like the first
    spec2, cls2, ca2 = _build(ctx, a, "a_")
    ctx.check("a command built after other commands has the same CDB as one built before them",
              same(list(ca2.cdb), ctx.oracle_struct(solo["cdb"])))


def h_after_raw(ctx, a, raw_opcode):
    """a raw command built straight from the SCSICommand base class (6-, 10-, 12- or 16-byte group) comes first, then
    the first command of class A ever built in this process: A's CDB has the length of A's own operation code and
    the bytes its arguments give (compared with the standard's layout, since no earlier observation of A exists)"""
    from pyscsi.pyscsi.scsi_command import SCSICommand
    from pyscsi.pyscsi.scsi_opcode import OpCode
    st, raw = ctx.attempt(SCSICommand, OpCode("RAW", raw_opcode, {}), 0, 0)
    spec, cls, ca = _build(ctx, a, "a_")
    ctx.check("first %s after a raw %02Xh command: CDB length" % (a, raw_opcode), len(ca.cdb) == ctx.oracle(spec["length"]))
    d = cls.unmarshall_cdb(ca.cdb)
    enc = cls.marshall_cdb(d)
    ctx.check("first %s after a raw %02Xh command: class-level encoding has the class's length" % (a, raw_opcode),
              len(enc) == ctx.oracle(spec["length"]))
    ctx.check("first %s after a raw %02Xh command: operation code byte" % (a, raw_opcode), ca.cdb[0] == ctx.oracle(spec["opcode"]))
    if st == "ok":
        ctx.check("the raw command keeps the length of its own group", len(raw.cdb) == ctx.oracle(L.cdb_length(raw_opcode)))


def h_triple(ctx, a, b, c):
    """A built, then B and C built with symbolic arguments (in both orders), A observed in between"""
    spec, cls, ca = _build(ctx, a, "a_")
    probe = dict(cls.unmarshall_cdb(ca.cdb))
    solo = _observe(cls, ca, probe)
    for first, second in ((b, c), (c, b)):
        s1, k1, c1 = _build(ctx, first, "x_%s_" % first[:3])
        _same_obs(ctx, "after %s" % first, _observe(cls, ca, probe), solo)
        s2, k2, c2 = _build(ctx, second, "y_%s_" % second[:3])
        k1.unmarshall_cdb(c1.cdb)
        _same_obs(ctx, "after %s then %s" % (first, second), _observe(cls, ca, probe), solo)


def h_repeat_marshalling(ctx, lid):
    """marshalling the same EXTENDED COPY dictionaries twice gives the same bytes (the marshaller writes into the
    caller's dictionaries) and default (mutable) arguments do not accumulate state"""
    from pyscsi.pyscsi.scsi import SCSI
    from stubs.recdev import RecDevice
    from . import c05
    dev = RecDevice()
    s = SCSI(dev)
    tl = [c05._target(ctx, lid, 0, "naa5", "t_")]
    sl = [c05._segment(ctx, lid, 2, "s_")]
    m = s.extendedcopy4 if lid == 1 else s.extendedcopy5
    key = "target_descriptor_list" if lid == 1 else "cscd_descriptor_list"
    first = m(**{key: tl, "segment_descriptor_list": sl})
    second = m(**{key: tl, "segment_descriptor_list": sl})
    ctx.check("same dictionaries, same parameter list", same(list(first.dataout), ctx.oracle_struct(list(second.dataout))))
    e1 = m()
    m(**{key: tl, "segment_descriptor_list": sl})
    e2 = m()
    ctx.check("default arguments stay empty between calls", same(list(e1.dataout), ctx.oracle_struct(list(e2.dataout))))


def obligations(tier):
    from symx.harness import Ob
    from . import c09_threads as T
    cmds = list(L.CDB)
    obs = []
    for a in cmds:
        obs.append(Ob("sequential/%s/vs-all" % a, MOD, "h_pairs", {"a": a, "others": [b for b in cmds if b != a]}))
    reps = ["READ(10)", "READ(16)", "INQUIRY", "MODE SENSE(6)", "ATA PASS-THROUGH(16)", "READ ELEMENT STATUS", "TEST UNIT READY",
            "PERSISTENT RESERVE OUT", "READ CD"]
    if tier == "thorough":
        for a in reps:
            for b in reps:
                for c in reps:
                    if len({a, b, c}) == 3 and b < c:
                        obs.append(Ob("triple/%s/%s/%s" % (a, b, c), MOD, "h_triple", {"a": a, "b": b, "c": c}))
    else:
        for a, b, c in (("READ(16)", "INQUIRY", "READ(10)"), ("INQUIRY", "READ(16)", "TEST UNIT READY"),
                        ("MODE SENSE(6)", "ATA PASS-THROUGH(16)", "READ CD")):
            obs.append(Ob("triple/%s/%s/%s" % (a, b, c), MOD, "h_triple", {"a": a, "b": b, "c": c}))
    for lid in (1, 4):
        obs.append(Ob("repeat-marshalling/xcopy%d" % lid, MOD, "h_repeat_marshalling", {"lid": lid}))
    for a in (reps if tier == "quick" else cmds):
        for op in (0x08, 0x2F, 0xA8, 0x8F):
            if L.cdb_length(op) != L.CDB[a]["length"]:
                obs.append(Ob("after-raw-command/%s/%02X" % (a, op), MOD, "h_after_raw", {"a": a, "raw_opcode": op}, canary=False))
    obs += T.obligations(tier)
    return obs


CANARIES = {"quick": 12, "thorough": 30}

INFO = {
    "explanation": "(a) every ordered pair of the 43 command classes (thorough: also triples over 9 representatives, both "
                   "orders) is run with A's arguments symbolic: A's cdb, buffers, A.unmarshall_cdb and A.marshall_cdb are "
                   "compared, as terms, before and after other commands are created and used. (b) two threads, each "
                   "building and using its own command: the shared-memory accesses of each thread's solo run are traced "
                   "through the instrumenting loader, the interleaving is encoded in z3 (integer clocks, program order, "
                   "reads-from = latest earlier write) and the query 'some read of one thread takes a value written by "
                   "the other that differs from its solo value' must be unsat; a model is a schedule, replayed with real "
                   "threads under a deterministic scheduler.",
    "functions": ["SCSICommand.__init__/init_cdb/build_cdb/marshall_cdb/unmarshall_cdb", "all command constructors",
                  "ExtendedCopy.marshall_segment/encode_segment_dict", "SCSI.extendedcopy4/5 default arguments"],
    "bounds": {"sequential": "all ordered pairs; triples over 9 representative classes (thorough)",
               "threads": "2 threads x (construct, encode, decode); all class pairs of 9 representatives quick / all 43 "
                          "thorough at shared-access granularity, no preemption bound (order is symbolic)"},
    "outside": ["more than two threads", "C-level global state", "the transports"],
    "assumptions": ["shared state = class / module attributes and objects reachable from them, as seen by the tracer"],
}
