"""C10 -- the bit-field codec obeys its algebraic laws for every layout.

Real code under test: pyscsi/utils/converter.py (scsi_int_to_ba, scsi_ba_to_int,
encode_dict, decode_bits).  The *mask itself is symbolic*: one contiguous run of
w ones starting at bit lo of its lowest byte; the explorer forks only where the
code's own loops depend on it (byte span, alignment)."""
from symx.ctx import Skip

from pyscsi.utils import converter as cv

MOD = "checks.c10"
L = 22  # buffer length for single-field laws


def _big(buf):
    acc = 0
    for b in buf:
        acc = (acc << 8) | b
    return acc


def h_int_ba(ctx, size):
    """big-endian, inverse both ways, for one array size"""
    v = ctx.int("v", 8 * size) if size else 0
    ba = cv.scsi_int_to_ba(v, size)
    ctx.check("len", len(ba) == size)
    # positional (big-endian) value of the produced bytes equals v: sum(b[i] * 256**(size-1-i))
    acc = 0
    for i in range(size):
        acc = acc + ba[i] * (256 ** (size - 1 - i))
    ctx.check("big-endian-positional-value", acc == ctx.oracle(v))
    ctx.check("ba_to_int(int_to_ba(v)) == v", cv.scsi_ba_to_int(ba) == ctx.oracle(v))
    if size:
        ctx.check("most-significant-byte-first", ba[0] == ctx.oracle(v >> (8 * (size - 1))))
    b = ctx.bytes("b", size)
    n = cv.scsi_ba_to_int(b)
    acc = 0
    for i in range(size):
        acc = acc + b[i] * (256 ** (size - 1 - i))
    ctx.check("ba_to_int positional", n == ctx.oracle(acc))
    back = cv.scsi_int_to_ba(n, size)
    ctx.check("int_to_ba(ba_to_int(b)) == b", back == ctx.oracle(b))


def _mask(ctx, tag, maxw):
    w = ctx.int(tag + "w", 8, lo=1, hi=maxw)
    lo = ctx.int(tag + "lo", 5)  # low end of the run: bit 0..31, i.e. masks whose low-order bytes are empty too
    ones = (1 << w) - 1
    return w, lo, ones, ones << lo


def _span(mask):
    n = 1
    m = mask
    while m > 0xFF:
        m >>= 8
        n += 1
    return n


def h_field(ctx, maxw, off):
    """laws (1)-(4) for one symbolic contiguous mask at byte offset `off`"""
    L = max(22, maxw // 8 + 9)   # buffer length: room for the widest mask at any offset used
    w, lo, ones, mask = _mask(ctx, "", maxw)
    v = ctx.int("v", maxw)
    ctx.assume(v <= ones)
    span = _span(mask)  # forks exactly where the codec's own loop does
    if off < 0:
        off = L + off - span + 1  # field ends at the last byte of the buffer
    lay = {"f": [mask, off]}
    shift = 8 * (L - off - span)
    region = ((1 << (8 * span)) - 1) << shift

    # (1) zero buffer: the field bits hold v, everything else stays 0
    buf = ctx.zeros("z", L)
    cv.encode_dict({"f": v}, lay, buf)
    ctx.check("encode-length-unchanged", len(buf) == L)
    B = _big(buf)
    ctx.check("zero-buffer: field holds value, all other bits 0", B == ctx.oracle((v << lo) << shift))

    # (2) arbitrary prior contents whose field bits are 0: only the field changes
    prior = ctx.bytes("p", L)
    P = _big(prior)
    ctx.assume((P & (mask << shift)) == 0)
    buf2 = prior.copy() if hasattr(prior, "copy") else bytearray(prior)
    cv.encode_dict({"f": v}, lay, buf2)
    B2 = _big(buf2)
    ctx.check("prior-buffer: bits outside the field unchanged", (B2 & ~(mask << shift)) == ctx.oracle(P))
    ctx.check("prior-buffer: field bits hold value", (B2 & (mask << shift)) == ctx.oracle((v << lo) << shift))

    # (3) decode reads exactly the field bits, for arbitrary buffer contents
    anyb = ctx.bytes("a", L)
    A = _big(anyb)
    d = {}
    cv.decode_bits(anyb, lay, d)
    ctx.check("decode reads exactly the field bits", d["f"] == ctx.oracle(((A >> shift) & mask) >> lo))

    # (4) decode after encode returns the value
    d2 = dict(d)  # the result dict still holds the earlier decode of another buffer: it must be overwritten
    cv.decode_bits(buf2, lay, d2)
    ctx.check("decode(encode(v)) == v", d2["f"] == ctx.oracle(v))


def h_two(ctx, maxw, off1, off2):
    """law (5): two non-overlapping symbolic fields, either dict order"""
    LL = 12
    w1, lo1, ones1, m1 = _mask(ctx, "a", maxw)
    w2, lo2, ones2, m2 = _mask(ctx, "b", maxw)
    v1 = ctx.int("v1", maxw)
    v2 = ctx.int("v2", maxw)
    ctx.assume(v1 <= ones1)
    ctx.assume(v2 <= ones2)
    s1, s2 = _span(m1), _span(m2)
    sh1, sh2 = 8 * (LL - off1 - s1), 8 * (LL - off2 - s2)
    if sh1 < 0 or sh2 < 0:
        raise Skip("field does not fit")
    ctx.assume(((m1 << sh1) & (m2 << sh2)) == 0)
    lay = {"x": [m1, off1], "y": [m2, off2]}
    prior = ctx.bytes("p", LL)
    P = _big(prior)
    ctx.assume((P & ((m1 << sh1) | (m2 << sh2))) == 0)
    b1 = prior.copy() if hasattr(prior, "copy") else bytearray(prior)
    b2 = prior.copy() if hasattr(prior, "copy") else bytearray(prior)
    cv.encode_dict({"x": v1, "y": v2}, lay, b1)
    cv.encode_dict({"y": v2, "x": v1}, lay, b2)
    ctx.check("field order does not matter", b1 == ctx.oracle(b2))
    ctx.check("both fields and the rest", _big(b1) == ctx.oracle(P | ((v1 << lo1) << sh1) | ((v2 << lo2) << sh2)))
    d = {}
    cv.decode_bits(b1, lay, d)
    ctx.check("x decodes to its own value", d["x"] == ctx.oracle(v1))
    ctx.check("y decodes to its own value", d["y"] == ctx.oracle(v2))
    # unknown keys in the data dict are ignored, keys of the layout missing from the data stay 0
    b3 = ctx.zeros("z", LL)
    cv.encode_dict({"x": v1, "nosuch": v2}, lay, b3)
    ctx.check("only supplied fields are written", _big(b3) == ctx.oracle((v1 << lo1) << sh1))


def h_blob(ctx, kind, length, off):
    """law (6): byte / word / dword blobs"""
    k = {"b": 1, "w": 2, "dw": 4}[kind]
    LL = off + length * k + 3
    val = ctx.bytes("val", length * k)
    prior = ctx.bytes("p", LL)
    buf = prior.copy() if hasattr(prior, "copy") else bytearray(prior)
    lay = {"f": (kind, off, length)}
    cv.encode_dict({"f": val}, lay, buf)
    ctx.check("length unchanged", len(buf) == LL)
    ctx.check("bytes before untouched", buf[:off] == ctx.oracle(prior[:off]))
    ctx.check("blob placed at offset with length*%d bytes" % k, buf[off:off + length * k] == ctx.oracle(val))
    ctx.check("bytes after untouched", buf[off + length * k:] == ctx.oracle(prior[off + length * k:]))
    d = {}
    cv.decode_bits(buf, lay, d)
    ctx.check("decode returns the blob", d["f"] == ctx.oracle(val))
    ctx.check("decoded length", len(d["f"]) == length * k)
    a = ctx.bytes("a", LL)
    d2 = {}
    cv.decode_bits(a, lay, d2)
    ctx.check("decode reads exactly the slice", d2["f"] == ctx.oracle(a[off:off + length * k]))


def h_layout_sequence(ctx, n):
    """layouts come and go (their list objects are freed and their ids reused): each one is coded by its own mask"""
    import gc
    masks = [(0xFF, 0), (0x0FF0, 1), (0x7FFFFF, 0), (0x01, 2), (0x3FFC, 0), (0xFFFFFFFF, 1), (0x1FFFE0, 1), (0x80, 3),
             (0xFFFFFFFFFFFFFFFF, 0), (0x03C0, 2)]
    for k in range(n):
        mask, off = masks[k % len(masks)]
        lo = (mask & -mask).bit_length() - 1
        w = bin(mask).count("1")
        v = ctx.int("v%d" % k, w)
        lay = {"f": [mask, off]}
        buf = ctx.zeros("z%d" % k, 12)
        cv.encode_dict({"f": v}, lay, buf)
        span = _span(mask)
        ctx.check("layout %d (mask %#x): field holds the value" % (k, mask),
                  _big(buf) == ctx.oracle((v << lo) << (8 * (12 - off - span))))
        d = {}
        cv.decode_bits(buf, lay, d)
        ctx.check("layout %d (mask %#x): decode(encode(v)) == v" % (k, mask), d["f"] == ctx.oracle(v))
        del lay, d
        gc.collect()


def h_tables(ctx):
    """side obligation: every [mask, offset] entry of every layout table in the repo is a
    non-zero contiguous mask (decode_bits does not terminate on mask 0; masks with holes are
    outside the claim).  Finite; enumerated completely."""
    import importlib
    import pkgutil
    import pyscsi.pyscsi as pkg
    bad = []
    n = 0
    for mi in pkgutil.iter_modules(pkg.__path__):
        m = importlib.import_module("pyscsi.pyscsi." + mi.name)
        stack = [(mi.name + "." + k, v) for k, v in vars(m).items()]
        seen = set()
        while stack:
            name, v = stack.pop()
            if id(v) in seen:
                continue
            seen.add(id(v))
            if isinstance(v, type) and v.__module__ == m.__name__:
                stack.extend((name + "." + k, x) for k, x in vars(v).items())
            elif isinstance(v, dict) and name.split(".")[-1].endswith("bits"):
                for k, e in v.items():
                    if isinstance(e, (list, tuple)) and len(e) == 2 and all(isinstance(x, int) for x in e):
                        n += 1
                        mk = e[0]
                        if mk <= 0 or ((mk + (mk & -mk)) & mk) != 0:
                            bad.append("%s[%s]=%#x" % (name, k, mk))
    ctx.note("layout_entries", n)
    ctx.check("all layout masks non-zero and contiguous (%d entries)" % n, not bad, str(bad[:5]))


def obligations(tier):
    from symx.harness import Ob
    obs = []
    sizes = range(0, 34) if tier == "thorough" else [0, 1, 2, 3, 4, 8, 9, 17]
    for s in sizes:
        obs.append(Ob("int_ba/size=%d" % s, MOD, "h_int_ba", {"size": s}))
    maxw = 264 if tier == "thorough" else 72
    for off in (0, 1, -1):
        obs.append(Ob("field/maxw=%d/off=%d" % (maxw, off), MOD, "h_field", {"maxw": maxw, "off": off}, split=True))
    mw2 = 40 if tier == "thorough" else 20
    for o1, o2 in ((2, 2), (2, 3), (4, 2)):
        obs.append(Ob("two-fields/maxw=%d/off=%d,%d" % (mw2, o1, o2), MOD, "h_two",
                      {"maxw": mw2, "off1": o1, "off2": o2}, split=True))
    for kind in ("b", "w", "dw"):
        for length in (range(0, 9) if tier == "thorough" else (0, 1, 3, 8)):
            obs.append(Ob("blob/%s/len=%d" % (kind, length), MOD, "h_blob", {"kind": kind, "length": length, "off": 2},
                          canary=length > 0))
    obs.append(Ob("layout-tables", MOD, "h_tables", {}, canary=False))
    obs.append(Ob("layout-sequence", MOD, "h_layout_sequence", {"n": 20}))
    return obs


INFO = {
    "explanation": "The real converter functions run on solver variables: value, prior buffer bytes AND the mask "
                   "(constrained to one contiguous run of w ones at alignment lo) are symbolic; each algebraic law is "
                   "a z3 query 'path condition and not law' that must be unsat on every path.",
    "functions": ["pyscsi.utils.converter.scsi_int_to_ba", "pyscsi.utils.converter.scsi_ba_to_int",
                  "pyscsi.utils.converter.encode_dict", "pyscsi.utils.converter.decode_bits"],
    "bounds": {"array sizes": "0..33 bytes (quick: 0,1,2,3,4,8,9,17)", "mask width": "1..264 bits thorough / 1..72 quick, "
               "low end of the run at bit 0..31 (alignment 0..7 and up to three empty low-order mask bytes), i.e. spans 1..37 / 1..13 bytes", "offsets": "0, 1, end-of-buffer (buffer of max(22, maxw/8+9) bytes)",
               "two-field law": "masks up to 40 (quick 20) bits each, 12-byte buffer, 3 offset pairs",
               "blobs": "b/w/dw, lengths 0..8 (quick 0,1,3,8)"},
    "outside": ["masks with holes or mask 0 (no table in the repo has one: checked as a side obligation)",
                "values that do not fit the field (input validation is not part of the property)",
                "buffers longer than 22 bytes / offsets other than the three classes"],
    "assumptions": ["z3 bit-vector semantics; CPython int/bytearray semantics as modelled by symx.values (validated by "
                    "the differential self-test on every run)"],
}
