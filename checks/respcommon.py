"""comparison helpers for decoded responses (C04/C06)"""


def _is_bytes(x):
    return hasattr(x, "sym_len") or isinstance(x, (bytes, bytearray))


def same(a, b):
    """deep equality; returns bool or a symbolic bool.  lists of byte values compare with byte buffers"""
    if isinstance(a, dict) and isinstance(b, dict):
        if set(a.keys()) != set(b.keys()):
            return False
        acc = True
        for k in a:
            acc = conj(acc, same(a[k], b[k]))
            if acc is False:
                return False
        return acc
    if _is_bytes(a) or _is_bytes(b):
        la, lb = list(a), list(b)
        if len(la) != len(lb):
            return False
        acc = True
        for x, y in zip(la, lb):
            acc = conj(acc, x == y)
            if acc is False:
                return False
        return acc
    if isinstance(a, (list, tuple)) and isinstance(b, (list, tuple)):
        if len(a) != len(b):
            return False
        acc = True
        for x, y in zip(a, b):
            acc = conj(acc, same(x, y))
            if acc is False:
                return False
        return acc
    if isinstance(a, str) or isinstance(b, str):
        return a == b
    return a == b


def conj(a, b):
    if a is True:
        return b
    if b is True:
        return a
    if a is False or b is False:
        return False
    return a & b


def covers(ctx, label, got, exp, path=""):
    """every key the oracle states is present in the decoded result with the value the device placed
    there; lists have exactly the expected number of entries (nothing dropped, nothing beyond the length)"""
    if isinstance(exp, dict):
        if not isinstance(got, dict):
            ctx.check("%s%s is a dictionary" % (label, path), False, repr(got)[:80])
            return
        for k, v in exp.items():
            if k not in got:
                ctx.check("%s%s: '%s' is reported" % (label, path, k), False, "keys=%s" % sorted(map(str, got.keys()))[:200])
                continue
            covers(ctx, label, got[k], v, "%s/%s" % (path, k))
        return
    if isinstance(exp, (list, tuple)) and not (exp and all(_leaf_int(x) for x in exp)):
        if not isinstance(got, (list, tuple)):
            ctx.check("%s%s is a list" % (label, path), False, repr(got)[:80])
            return
        ctx.check("%s%s: exactly the descriptors inside the reported length (%d)" % (label, path, len(exp)),
                  len(got) == ctx.oracle(len(exp)), "got %d" % len(got))
        for i, (g, e) in enumerate(zip(got, exp)):
            covers(ctx, label, g, e, "%s[%d]" % (path, i))
        return
    ctx.check("%s%s has the value the device sent" % (label, path), same(got, ctx.oracle_struct(exp)))


def _leaf_int(x):
    return isinstance(x, int) or hasattr(x, "t")
