"""entry point: python -m checks.run <Cxx> [--tier quick|thorough]"""
import argparse
import importlib
import os
import sys


def main():
    ap = argparse.ArgumentParser()
    ap.add_argument("prop")
    ap.add_argument("--tier", default=os.environ.get("VERIF_TIER", "quick"), choices=["quick", "thorough"])
    ap.add_argument("--workers", type=int, default=None)
    ap.add_argument("--only", default=None, help="regex on obligation names (debugging)")
    a = ap.parse_args()
    seed = int(os.environ.get("VERIF_SEED", "0") or 0)
    from symx import loader
    loader.install()
    from symx import driver, selftest
    mod = importlib.import_module("checks." + a.prop.lower())
    obs = mod.obligations(a.tier)
    if a.only:
        import re
        obs = [o for o in obs if re.search(a.only, o.name)]
    info = dict(mod.INFO)
    st = selftest.run(a.prop, a.tier, seed, quick=(a.tier == "quick"))
    info.setdefault("extra_coverage", {})["translator_validation"] = st
    if not st["ok"]:
        print("HARNESS-ERROR property=%s translator validation failed: %s" % (a.prop, st["detail"]))
        rc = 3
        # still run the property so that evidence is written
        rc2 = driver.run_property(a.prop, a.tier, seed, obs, info, workers=a.workers)
        sys.exit(rc2 if rc2 == 1 else rc)
    sys.exit(driver.run_property(a.prop, a.tier, seed, obs, info, workers=a.workers,
                                 canary_count=getattr(mod, "CANARIES", {}).get(a.tier)))


if __name__ == "__main__":
    main()
