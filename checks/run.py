"""entry point: python -m checks.run <Cxx> [--tier quick|thorough]"""
import argparse
import importlib
import os
import sys


def _selftest_in_child(selftest, prop, tier, seed):
    """translator validation runs in a forked child: the parent (from which every obligation is forked) never
    executes library code, so no state can leak from the self-test into an obligation"""
    import multiprocessing as mp
    ctx = mp.get_context("fork")
    rx, tx = ctx.Pipe(duplex=False)

    def child():
        try:
            r = selftest.run(prop, tier, seed, quick=(tier == "quick"))
        except BaseException as e:  # noqa
            r = {"ok": False, "detail": ["self-test crashed: %r" % (e,)]}
        tx.send(r)
        tx.close()
        os._exit(0)
    p = ctx.Process(target=child)
    p.start()
    tx.close()
    try:
        r = rx.recv() if rx.poll(600) else {"ok": False, "detail": ["self-test timed out"]}
    except EOFError:
        r = {"ok": False, "detail": ["self-test died"]}
    p.join(5)
    return r


def main():
    ap = argparse.ArgumentParser()
    ap.add_argument("prop")
    ap.add_argument("--tier", default=os.environ.get("VERIF_TIER", "quick"), choices=["quick", "thorough"])
    ap.add_argument("--workers", type=int, default=None)
    ap.add_argument("--only", default=None, help="regex on obligation names (debugging)")
    a = ap.parse_args()
    seed = int(os.environ.get("VERIF_SEED", "0") or 0)
    from symx import loader
    loader.install()
    from symx import driver, selftest
    # import (only import) every module of the library in the parent: the source digest in the evidence covers the
    # whole package, and forked workers start with the modules loaded
    import pkgutil
    import pyscsi
    for mi in pkgutil.walk_packages(pyscsi.__path__, "pyscsi."):
        try:
            importlib.import_module(mi.name)
        except Exception:
            pass
    mod = importlib.import_module("checks." + a.prop.lower())
    obs = mod.obligations(a.tier)
    if a.only:
        import re
        obs = [o for o in obs if re.search(a.only, o.name)]
    info = dict(mod.INFO)
    st = _selftest_in_child(selftest, a.prop, a.tier, seed)
    info.setdefault("extra_coverage", {})["translator_validation"] = st
    if not st["ok"]:
        print("HARNESS-ERROR property=%s translator validation failed: %s" % (a.prop, st["detail"]))
        rc = 3
        # still run the property so that evidence is written
        rc2 = driver.run_property(a.prop, a.tier, seed, obs, info, workers=a.workers)
        sys.exit(rc2 if rc2 == 1 else rc)
    sys.exit(driver.run_property(a.prop, a.tier, seed, obs, info, workers=a.workers,
                                 canary_count=getattr(mod, "CANARIES", {}).get(a.tier)))


if __name__ == "__main__":
    main()
