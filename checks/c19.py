"""C19 -- the transport bindings are optional; a missing one is refused, not half-used.

Four presence configurations of the two bindings (stub module importable / import
blocked).  In each: every module under pyscsi imports through the instrumenting
loader, a reduced C01/C02 run shows that commands build, encode and decode with
symbolic arguments, and the facade works over a plain device object.  The device
string given to init_device / SCSIDevice / ISCSIDevice is a string of symbolic
characters (every length up to the bound): the outcome must equal the dispatch
table of the property, and a refusal must happen before any open()/Context/connect."""
import importlib
import pkgutil
import sys

MOD = "checks.c19"


def _configure(have_sgio, have_iscsi):
    from stubs import env
    for m in [m for m in sys.modules if m == "pyscsi" or m.startswith("pyscsi.")]:
        del sys.modules[m]
    sd, idv = env.install(have_sgio, have_iscsi)
    env.ENV.reset()
    return env, sd, idv


def h_imports(ctx, have_sgio, have_iscsi):
    env, sd, idv = _configure(have_sgio, have_iscsi)
    import pyscsi
    bad = []
    n = 0
    for mi in pkgutil.walk_packages(pyscsi.__path__, "pyscsi."):
        n += 1
        try:
            importlib.import_module(mi.name)
        except Exception as e:  # noqa
            bad.append("%s: %r" % (mi.name, e))
    ctx.note("modules", n)
    ctx.check("every module of the package imports (%d modules)" % n, ctx.oracle(not bad), str(bad[:3]))
    ctx.check("binding flags reflect what is installed", sd._has_sgio == ctx.oracle(have_sgio) and idv._has_iscsi == ctx.oracle(have_iscsi))
    # commands build, encode and decode with symbolic arguments; the facade works over a plain device
    from . import c01, c02
    for cmd, st in (("READ(16)", "sbc"), ("INQUIRY", "spc"), ("MODE SENSE(6)", "spc"), ("READ ELEMENT STATUS", "smc"),
                    ("READ CD", "mmc")):
        c01.h_ctor(ctx, cmd, st)
    c02.h_roundtrip_bytes(ctx, "WRITE(10)")
    c01.h_facade(ctx, "READ(10)", "sbc")
    c01.h_facade(ctx, "REPORT LUNS", "ssc")


def _table(ctx, dev, have_sgio, have_iscsi):
    """the dispatch table of the property, decided on the symbolic string"""
    if have_sgio and dev[:5] == "/dev/":
        return "sgio"
    if have_iscsi and dev[:8] == "iscsi://":
        return "iscsi"
    return "refuse"


def h_dispatch(ctx, entry, n, have_sgio, have_iscsi, read_write, explicit_initiator):
    env, sd, idv = _configure(have_sgio, have_iscsi)
    E = env.ENV
    import pyscsi.utils as U
    dev = ctx.str("device", n)
    E.lun = ctx.int("lun", 16)
    node_absent = bool(ctx.choose("node", ["exists", "absent"]))
    open_refused = bool(ctx.choose("open", ["granted", "refused"]))
    if node_absent:
        E.cur_inode = None
    if open_refused:
        E.open_error = PermissionError(13, "Permission denied (stub)")
    # an explicit initiator name: any non-empty string (symbolic characters), not only iqn. names
    init = ctx.str("initiator", 5) if explicit_initiator else None
    if entry == "init_device":
        args = (dev, read_write) + ((init,) if init else ())
        st, r = ctx.attempt(U.init_device, *args)
        want = _table(ctx, dev, True, True)   # init_device dispatches on the prefix alone ...
        if want == "sgio" and not have_sgio or want == "iscsi" and not have_iscsi:
            want = "refuse"                   # ... and the device class refuses when its binding is missing
    elif entry == "SCSIDevice":
        st, r = ctx.attempt(sd.SCSIDevice, dev, read_write)
        want = "sgio" if (have_sgio and dev[:5] == "/dev/") else "refuse"
    else:
        st, r = ctx.attempt(idv.ISCSIDevice, dev, *((init,) if init else ()))
        want = "iscsi" if (have_iscsi and dev[:8] == "iscsi://") else "refuse"
    if want == "refuse":
        ctx.check("refused", ctx.oracle(st == "exc"), repr(r))
        if st == "exc":
            ctx.check("refused with NotImplementedError", type(r) is NotImplementedError, repr(r))
        ctx.check("refusal happens before any file is opened", len(E.opens) == ctx.oracle(0))
        ctx.check("refusal happens before the file system is touched at all (no stat either)",
                  not [e for e in E.log if e[0] in ("open", "stat")])
        ctx.check("refusal happens before any iSCSI context / URL / connection is made",
                  len(E.iscsi_contexts) + len(E.iscsi_urls) == ctx.oracle(0))
        return
    if want == "sgio" and (node_absent or open_refused):
        # the operating system refuses the open: the error reaches the caller, after exactly one attempt in the right mode
        ctx.check("an open() failure is reported to the caller", ctx.oracle(st == "exc" and isinstance(r, OSError)), repr(r))
        ctx.check("exactly one open attempt, on the requested path, in the requested mode",
                  len(E.opens) == 1 and E.opens[0][0] is dev and E.opens[0][1] == ctx.oracle("w+b" if read_write else "rb"),
                  repr(E.opens))
        return
    ctx.check("a device object is returned", ctx.oracle(st == "ok"), repr(r))
    if st != "ok":
        return
    if want == "sgio":
        ctx.check("the SG_IO device class is returned", type(r) is sd.SCSIDevice)
        ctx.check("opened exactly once", len(E.opens) == ctx.oracle(1))
        ctx.check("opened on exactly the requested path", E.opens[0][0] is dev)
        ctx.check("open mode follows read_write", E.opens[0][1] == ctx.oracle("w+b" if read_write else "rb"))
        ctx.check("no iSCSI activity", len(E.iscsi_contexts) == 0)
    else:
        ctx.check("the iSCSI device class is returned", type(r) is idv.ISCSIDevice)
        ctx.check("exactly one context and one URL", len(E.iscsi_contexts) == 1 and len(E.iscsi_urls) == ctx.oracle(1))
        c = E.iscsi_contexts[0]
        if entry == "init_device" and not explicit_initiator:
            ctx.check("default initiator name is used", isinstance(c.initiator_name, str)
                      and c.initiator_name.startswith(ctx.oracle("iqn.2018-01.org.pyscsi:")), repr(c.initiator_name))
        elif explicit_initiator:
            ctx.check("the explicit initiator name is used", c.initiator_name is init, repr(c.initiator_name))
        ctx.check("URL built from exactly the requested string", E.iscsi_urls[0].url is dev)
        conn = [x for x in c.calls if x[0] == "connect"]
        ctx.check("connected exactly once", len(conn) == ctx.oracle(1))
        u = E.iscsi_urls[0]
        ctx.check("connected to the portal and logical unit of the requested URL", bool(conn) and conn[0][1] is u.portal and conn[0][2] is u.lun)
        ctx.check("no file opened", len(E.opens) == 0)


def obligations(tier):
    from symx.harness import Ob
    obs = []
    combos = [(a, b) for a in (True, False) for b in (True, False)]
    for a, b in combos:
        obs.append(Ob("imports+codec/sgio=%s/iscsi=%s" % (a, b), MOD, "h_imports", {"have_sgio": a, "have_iscsi": b}))
    lens = (0, 4, 5, 6, 8, 9, 12) if tier == "quick" else range(0, 25)
    for a, b in combos:
        for entry in ("init_device", "SCSIDevice", "ISCSIDevice"):
            for n in lens:
                for rw in ((False, True) if entry != "ISCSIDevice" else (False,)):
                    for ex in ((False, True) if entry != "SCSIDevice" else (False,)):
                        if tier == "quick" and (rw and ex):
                            continue
                        obs.append(Ob("dispatch/%s/len=%d/sgio=%s/iscsi=%s/rw=%s/init=%s" % (entry, n, a, b, rw, ex), MOD,
                                      "h_dispatch", {"entry": entry, "n": n, "have_sgio": a, "have_iscsi": b,
                                                     "read_write": rw, "explicit_initiator": ex}))
    return obs


CANARIES = {"quick": 25, "thorough": 60}

INFO = {
    "explanation": "Per presence configuration of the bindings the whole package is imported through the instrumenting "
                   "loader and a reduced symbolic C01/C02 run is repeated; the device string handed to init_device / "
                   "SCSIDevice / ISCSIDevice consists of symbolic characters (all lengths up to the bound), so the prefix "
                   "tests fork in the solver and z3 searches for a string on which behaviour and dispatch table disagree.",
    "functions": ["pyscsi.utils.init_device", "SCSIDevice.__init__/open", "ISCSIDevice.__init__/open",
                  "try: import sgio / import iscsi blocks", "every module under pyscsi (import)"],
    "bounds": {"device string": "7-bit characters, length 0..24 thorough / 7 lengths quick", "configurations": "4 x 3 entry "
               "points x read_write x explicit/default initiator"},
    "outside": ["non-ASCII device strings", "real bindings (stubs stand for cython-sgio / cython-iscsi)"],
    "assumptions": ["a blocked import behaves like an uninstalled binding (sys.modules[name] = None)"],
}
