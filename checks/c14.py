"""C14 -- operation codes, service actions and status codes are the T10 assignments;
CDB length follows the opcode group; other groups are refused.

(i)  SCSICommand.init_cdb runs on a *symbolic* opcode value (any integer in
     [-1024, 3071], i.e. also outside 0..255); the outcome of every path is compared
     with SAM's group rule stated on the group code (value >> 5).
(ii) The library's tables are read from the loaded module and put into the solver as
     finite functions (if-then-else terms over a symbolic entry index) next to the
     independent transcription spec/t10_codes.py; the query is "exists an entry where
     they differ" / "exists a name listed in two sets with different values"."""
from spec import t10_codes as T

MOD = "checks.c14"
SETNAMES = ["spc", "sbc", "ssc", "smc", "mmc"]


def h_init_cdb(ctx):
    from pyscsi.pyscsi.scsi_command import SCSICommand
    v = ctx.int("v", 12) - 1024

    class Op:
        value = v
    st, r = ctx.attempt(SCSICommand.init_cdb, Op)
    inrange = (v >= 0) & (v <= 255)
    g = v >> 5  # group code = bits 7:5
    if st == "ok":
        n = len(r)
        ctx.check("returned CDB length is 6, 10, 12 or 16", n in (6, 10, 12, 16))
        if n == 6:
            ctx.check("6 bytes only for group 0", ctx.oracle(inrange & (g == 0)))
        elif n == 10:
            ctx.check("10 bytes only for groups 1 and 2", ctx.oracle(inrange & ((g == 1) | (g == 2))))
        elif n == 16:
            ctx.check("16 bytes only for group 4", ctx.oracle(inrange & (g == 4)))
        elif n == 12:
            ctx.check("12 bytes only for group 5", ctx.oracle(inrange & (g == 5)))
        ctx.check("new CDB is all zero", r == bytearray(n))
    else:
        ctx.check("refusal is OpcodeException", type(r) is SCSICommand.OpcodeException, repr(r))
        fixed = inrange & ((g == 0) | (g == 1) | (g == 2) | (g == 4) | (g == 5))
        ctx.check("only groups 3, 6, 7 and out-of-range codes are refused", ctx.oracle(~fixed if not isinstance(fixed, bool) else not fixed))


def h_command_sequence(ctx):
    """two steps: the CDB a command object gets follows the opcode *it* was constructed with, also when the same
    command class was constructed with another opcode before; and an OpCode built after another one (both with
    short-lived inline service-action tables) lists its own service actions"""
    from pyscsi.pyscsi.scsi_command import SCSICommand
    from pyscsi.pyscsi.scsi_opcode import OpCode

    class Cmd(SCSICommand):
        pass
    for tag, v in (("first", ctx.int("v1", 8)), ("second", ctx.int("v2", 8))):
        st, r = ctx.attempt(Cmd, OpCode("X", v, {}), 0, 0)
        g = v >> 5
        fixed = (g == 0) | (g == 1) | (g == 2) | (g == 4) | (g == 5)
        if st == "ok":
            n = len(r.cdb)
            want = (g == 0) & (n == 6) | ((g == 1) | (g == 2)) & (n == 10) | (g == 4) & (n == 16) | (g == 5) & (n == 12)
            ctx.check(tag + " construction: CDB length follows the group of this opcode", ctx.oracle(want))
        else:
            ctx.check(tag + " construction: only codes without a fixed length are refused",
                      ctx.oracle(~fixed if not isinstance(fixed, bool) else not fixed))
    s1, s2 = ctx.int("s1", 5), ctx.int("s2", 5)
    a = OpCode("A", 0xA3, {"SA_ONE": s1, "SA_TWO": s1 + 1})
    b = OpCode("B", 0xA4, {"SB_ONE": s2})
    ctx.check("second opcode lists exactly its own service action", sorted(b.serviceaction.keys) == ["SB_ONE"],
              repr(sorted(b.serviceaction.keys)))
    if "SB_ONE" in b.serviceaction.keys:
        ctx.check("second opcode: service action value", b.serviceaction.SB_ONE == ctx.oracle(s2))
    ctx.check("first opcode keeps its own service actions", sorted(a.serviceaction.keys) == ["SA_ONE", "SA_TWO"])


def h_opcode_object(ctx):
    """init_cdb follows the *current* value of a real OpCode object (value is a public, settable property)"""
    from pyscsi.pyscsi.scsi_command import SCSICommand
    from pyscsi.pyscsi.scsi_opcode import OpCode

    def expect(tag, op, v):
        st, r = ctx.attempt(SCSICommand.init_cdb, op)
        g = v >> 5
        fixed = (g == 0) | (g == 1) | (g == 2) | (g == 4) | (g == 5)
        if st == "ok":
            n = len(r)
            want = (g == 0) & (n == 6) | ((g == 1) | (g == 2)) & (n == 10) | (g == 4) & (n == 16) | (g == 5) & (n == 12)
            ctx.check(tag + ": CDB length follows the group of the current value", ctx.oracle(want))
        else:
            ctx.check(tag + ": only codes without a fixed length are refused", ctx.oracle(~fixed if not isinstance(fixed, bool) else not fixed))
    v1, v2 = ctx.int("v1", 8), ctx.int("v2", 8)
    op = OpCode("X", v1, {})
    expect("first use", op, v1)
    op.value = v2
    expect("after op.value = v2", op, v2)
    ctx.check("the value property reports what was set", op.value == ctx.oracle(v2))


def h_exposed_names(ctx, set_name):
    """a standard command name a command set answers to -- listed key or not -- carries the T10 value of that name"""
    st = _lib_set(set_name)
    union = {}
    for sname, table in T.SETS.items():
        for n, v in table.items():
            union.setdefault(n, set()).add(v)
    bad = []
    n_exposed = 0
    for name in sorted(union):
        try:
            op = getattr(st, name)
        except AttributeError:
            continue
        except Exception as e:  # noqa
            bad.append("%s: %r" % (name, e))
            continue
        n_exposed += 1
        val = getattr(op, "value", op)
        ok = val == T.SETS[set_name][name] if name in T.SETS[set_name] else val in union[name]
        if not ok:
            bad.append("%s.%s = %#x (T10: %s)" % (set_name, name, val, sorted(hex(x) for x in union[name])))
    ctx.note("exposed_" + set_name, n_exposed)
    ctx.check("every standard name %s answers to has the T10 value (%d names)" % (set_name, n_exposed), ctx.oracle(not bad), str(bad[:4]))
    ctx.check("names the set does not list are not invented", set(k for k in union if hasattr(st, k)) <= set(st.keys) | set(), str(
        sorted(set(k for k in union if hasattr(st, k)) - set(st.keys))[:5]))


def _lib_set(name):
    import pyscsi.pyscsi.scsi_enum_command as ec
    return getattr(ec, name)


def h_table(ctx, set_name):
    st = _lib_set(set_name)
    names = sorted(st.keys)
    ora = T.SETS[set_name]
    lib_vals, ora_vals, gaps = [], [], []
    for k in names:
        ph = T.placeholder_value(k)
        e = ph if ph is not None else ora.get(k)
        if e is None:
            gaps.append(k)
            continue
        lib_vals.append(getattr(st, k).value)
        ora_vals.append(e)
    ctx.note("oracle_gaps_" + set_name, gaps)
    if ctx.known("C14-mmc-modesense10") and set_name == "mmc":
        ora_vals[[k for k in names if k not in gaps].index("MODE_SENSE_10")] = 0xA5
    n = len(lib_vals)
    ctx.check("table has entries", n > 0)
    i = ctx.int("entry", 10, hi=n - 1)
    ctx.check("every named operation code of %s equals the T10 assignment (%d entries)" % (set_name, n),
              ctx.select(lib_vals, i) == ctx.oracle(ctx.select(ora_vals, i)))
    # the name stored inside the OpCode object and its code are consistent with init_cdb's groups
    for k in names:
        op = getattr(st, k)
        ctx.check("OpCode.value is an int in 0..255: %s" % k, isinstance(op.value, int) and 0 <= op.value <= 255)


def h_same_name(ctx, a, b):
    sa, sb = _lib_set(a), _lib_set(b)
    shared = sorted(set(sa.keys) & set(sb.keys))
    if ctx.known("C14-mmc-modesense10") and "mmc" in (a, b):
        shared = [k for k in shared if k != "MODE_SENSE_10"]
    va = [getattr(sa, k).value for k in shared]
    vb = [getattr(sb, k).value for k in shared]
    ctx.note("shared_%s_%s" % (a, b), len(shared))
    if not shared:
        ctx.check("no shared names", True)
        return
    i = ctx.int("entry", 10, hi=len(shared) - 1)
    ctx.check("a name listed in %s and %s has the same value in both (%d shared names)" % (a, b, len(shared)),
              ctx.select(va, i) == ctx.oracle(ctx.select(vb, i)))


def h_service_actions(ctx, set_name):
    st = _lib_set(set_name)
    lib_vals, ora_sets, labels, gaps = [], [], [], []
    for k in sorted(st.keys):
        op = getattr(st, k)
        for sk in sorted(op.serviceaction.keys):
            v = getattr(op.serviceaction, sk)
            table = T.SERVICE_ACTIONS.get(op.value, {})
            if sk in table:
                e = table[sk]
            elif sk in T.SA_BY_NAME and len(T.SA_BY_NAME[sk]) == 1:
                e = next(iter(T.SA_BY_NAME[sk]))  # shared service-action dictionary attached to another opcode
            else:
                gaps.append("%s.%s" % (k, sk))
                continue
            lib_vals.append(v)
            ora_sets.append(e)
            labels.append("%s.%s" % (k, sk))
    ctx.note("sa_oracle_gaps_" + set_name, sorted(set(g.split(".")[1] for g in gaps)))
    if not lib_vals:
        ctx.check("no service actions known to the oracle", ctx.oracle(True))
        return
    i = ctx.int("entry", 12, hi=len(lib_vals) - 1)
    ctx.check("every service action of %s equals the T10 assignment (%d entries)" % (set_name, len(lib_vals)),
              ctx.select(lib_vals, i) == ctx.oracle(ctx.select(ora_sets, i)))
    # commands the library builds need their service action: present with the T10 value
    for opname, need in (("PERSISTENT_RESERVE_IN", T.SERVICE_ACTIONS[0x5E]), ("PERSISTENT_RESERVE_OUT", T.SERVICE_ACTIONS[0x5F])):
        if opname in st.keys and not (ctx.known("C14-empty-pr-sa") and set_name in ("ssc", "smc")):
            sa = getattr(st, opname).serviceaction
            for nme, val in need.items():
                ctx.check("%s lists service action %s" % (opname, nme), nme in sa.keys and getattr(sa, nme) == val)


def h_status(ctx):
    import pyscsi.pyscsi.scsi_enum_command as ec
    names = [k for k in sorted(ec.SCSI_STATUS.keys) if k not in T.NON_T10_STATUS]
    lib = [getattr(ec.SCSI_STATUS, k) for k in names]
    gaps = [k for k in names if k not in T.STATUS]
    ctx.check("all status names known to the oracle", not gaps, str(gaps))
    ora = [T.STATUS[k] for k in names]
    i = ctx.int("entry", 6, hi=len(names) - 1)
    ctx.check("status codes equal SAM-5 (%d entries)" % len(names), ctx.select(lib, i) == ctx.oracle(ctx.select(ora, i)))
    for need in ("GOOD", "CHECK_CONDITION", "CONDITIONS_MET", "BUSY", "RESERVATION_CONFLICT", "TASK_SET_FULL",
                 "ACA_ACTIVE", "TASK_ABORTED"):
        ctx.check("status %s is listed" % need, need in names)


def obligations(tier):
    from symx.harness import Ob
    obs = [Ob("init_cdb/symbolic-opcode", MOD, "h_init_cdb", {}), Ob("init_cdb/opcode-object-revalued", MOD, "h_opcode_object", {}),
           Ob("init_cdb/command-class-constructed-twice", MOD, "h_command_sequence", {})]
    for s in SETNAMES:
        obs.append(Ob("exposed-names/%s" % s, MOD, "h_exposed_names", {"set_name": s}))
    for s in SETNAMES:
        obs.append(Ob("opcodes/%s" % s, MOD, "h_table", {"set_name": s}))
        obs.append(Ob("service-actions/%s" % s, MOD, "h_service_actions", {"set_name": s}))
    for i, a in enumerate(SETNAMES):
        for b in SETNAMES[i + 1:]:
            obs.append(Ob("same-name/%s-%s" % (a, b), MOD, "h_same_name", {"a": a, "b": b}))
    obs.append(Ob("status-codes", MOD, "h_status", {}))
    return obs


INFO = {
    "explanation": "init_cdb is executed on a symbolic integer opcode (4096 values incl. negative and >255): every path's "
                   "outcome is checked against the SAM group rule by z3. The opcode / service-action / status tables "
                   "are finite data: they are loaded from the module, encoded as if-then-else functions over a "
                   "symbolic entry index and compared with the independent T10 transcription by one unsat query per "
                   "table (complete for the finite tables).",
    "functions": ["SCSICommand.init_cdb", "scsi_enum_command.spc/sbc/ssc/smc/mmc (+ service action tables)",
                  "scsi_enum_command.SCSI_STATUS"],
    "bounds": {"opcode value": "-1024..3071 (all of 0..255 and both sides outside)", "tables": "all 249 named entries, "
               "all service-action entries the oracle knows, 8 status codes"},
    "outside": ["SCC-2 controller service actions (REPORT COMPONENT DEVICE ...): not transcribed, reported as oracle gaps"],
    "assumptions": ["spec/t10_codes.py transcribes the T10 operation code list correctly (trusted base)"],
    "extra_coverage": {"exhaustive": True},
}
