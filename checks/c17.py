"""C17 -- invalid requests are refused before anything is sent.

Per refusal class, every *other* argument is a solver variable; the refused
quantity itself ranges symbolically over its whole invalid domain (opcode value in
the refused groups, service-action integer outside {0..3}, type codes outside the
accepted set).  The request goes through the facade over a recording device: the
specific exception must be raised, the execute count must stay 0, and no command
object may escape."""
from spec import cdb_layouts as L
from symx.ctx import Skip

from . import common as K

MOD = "checks.c17"


def _facade(set_name, blocksize=0):
    from pyscsi.pyscsi.scsi import SCSI
    from stubs.recdev import RecDevice
    dev = RecDevice()
    s = SCSI(dev, blocksize)
    dev.opcodes = K.get_set(set_name)
    return s, dev, len(dev.executed)


def _refused(ctx, st, r, dev, n0, excname, what):
    ctx.check("%s: refused (no command object returned)" % what, ctx.oracle(st == "exc"), repr(r))
    if st == "exc":
        ctx.check("%s: refused with %s" % (what, excname), type(r).__name__ == excname, repr(r))
        if excname == "OpcodeException":
            from pyscsi.pyscsi.scsi_command import SCSICommand
            ctx.check("%s: ... the one a caller catches as SCSICommand.OpcodeException" % what,
                      isinstance(r, SCSICommand.OpcodeException), repr(type(r)))
    ctx.check("%s: nothing reached the device" % what, len(dev.executed) == ctx.oracle(n0))


def h_blocksize(ctx, cmd):
    """block transfer without a block size, through the facade and through the constructor"""
    spec = L.CDB[cmd]
    args = K.sym_args(ctx, spec)
    data = bytearray(8)
    s, dev, n0 = _facade("sbc", 0)
    fa = dict(args)
    if "data" in spec["extra"] and spec["extra"]["data"] == "data":
        fa["data"] = data
    if cmd == "WRITE SAME(16)":
        ctx.assume(args["ndob"] == 0)
    if cmd.startswith("ATA"):
        ctx.assume(args["byte_block"] == 1)
        ctx.assume(args["t_type"] == 1)
        ctx.assume(args["t_length"] != 0)
        which = ctx.choose("blocksize-arg", ["omitted", "zero"])
        if which:
            fa["blocksize"] = 0
        if ctx.choose("data-arg", ["omitted", "given"]):
            fa["data"] = bytearray(b"\x00" * 16)
    st, r = ctx.attempt(getattr(s, spec["facade"]), **fa)
    _refused(ctx, st, r, dev, n0, "MissingBlocksizeException", "facade")
    cargs = dict(fa)
    if not cmd.startswith("ATA"):
        cargs["blocksize"] = 0
    st, r = ctx.attempt(K.get_class(spec), K.lookup_opcode(spec, "sbc"), **cargs)
    ctx.check("constructor: refused", ctx.oracle(st == "exc"))
    if st == "exc":
        ctx.check("constructor: MissingBlocksizeException", type(r).__name__ == "MissingBlocksizeException", repr(r))


def h_opcode(ctx, cmd):
    """an operation code without a fixed CDB length (groups 3, 6, 7, or outside 0..255) is refused by every class"""
    spec = L.CDB[cmd]
    st_name = "spc" if "spc" in spec["sets"] else list(spec["sets"])[0]
    real = K.lookup_opcode(spec, st_name)
    v = ctx.int("opcode_value", 12) - 1024
    g = v >> 5
    fixed = (v >= 0) & (v <= 255) & ((g == 0) | (g == 1) | (g == 2) | (g == 4) | (g == 5))
    ctx.assume(~fixed if not isinstance(fixed, bool) else not fixed)

    class Op:
        value = v
        serviceaction = real.serviceaction
        name = "BOGUS"
    a, e = K.concrete_args(spec)
    if ctx.choose("history", ["first use of the class", "after a valid command of the same class"]):
        K.build(spec, real, a, e)
    stt, r = ctx.attempt(K.get_class(spec), Op, **dict(a, **e))
    ctx.check("refused", ctx.oracle(stt == "exc"))
    if stt == "exc":
        from pyscsi.pyscsi.scsi_command import SCSICommand
        ctx.check("OpcodeException", type(r).__name__ == "OpcodeException", repr(r))
        ctx.check("... the one a caller catches as SCSICommand.OpcodeException", isinstance(r, SCSICommand.OpcodeException), repr(type(r)))
    # through the facade: a command-set table that assigns such a code
    if spec["facade"] and spec["lookup"] == "key":
        from pyscsi.utils.enum import Enum
        s, dev, n0 = _facade(st_name, 512)
        key = spec["sets"][st_name]
        dev.opcodes = Enum({key: Op})
        fa = dict(a)
        for k, kind in spec["extra"].items():
            if kind in ("data", "modepage"):
                fa[k] = e[k]
        if cmd.startswith("PERSISTENT RESERVE IN/"):
            fa["service_action"] = spec["sa"][1]
        stt, r = ctx.attempt(getattr(s, spec["facade"]), **fa)
        _refused(ctx, stt, r, dev, n0, "OpcodeException", "facade")


def h_prin_sa(ctx, set_name):
    s, dev, n0 = _facade(set_name)
    sa = ctx.int("service_action", 13) - 4096   # -4096 .. 4095
    ctx.assume((sa > 3) | (sa < 0))
    alloclen = ctx.int("alloclen", 16)
    st, r = ctx.attempt(s.persistentreservein, sa, alloclen=alloclen)
    _refused(ctx, st, r, dev, n0, "ValueError", "persistentreservein")


# unknown names, misspellings, and names that are valid only in *other* descriptor kinds
_EXTRA_KEYS = ["bogus", "descriptor_typ_code", "pad", "lba", "", "stream_device_transfer_length",
               "block_device_logical_block_address", "disk_block_length", "designator"]


def _xcopy(ctx, lid, targets, segments):
    s, dev, n0 = _facade("spc")
    if lid == 1:
        st, r = ctx.attempt(s.extendedcopy4, list_identifier=ctx.int("list_identifier", 8), priority=ctx.int("priority", 3),
                            target_descriptor_list=targets, segment_descriptor_list=segments)
    else:
        st, r = ctx.attempt(s.extendedcopy5, list_identifier=ctx.int("list_identifier", 32), priority=ctx.int("priority", 3),
                            cscd_descriptor_list=targets, segment_descriptor_list=segments)
    return st, r, dev, n0


def _good_target(ctx, lid):
    pkey = "target_descriptor_parameters" if lid == 1 else "cscd_descriptor_parameters"
    return {"descriptor_type_code": 0xE4, "peripheral_device_type": 0,
            "relative_initiator_port_identifier": ctx.int("ripi", 16),
            pkey: {"code_set": 1, "association": 0, "designator_type": 3,
                   "designator": {"naa": 5, "ieee_company_id": ctx.int("cid", 24),
                                  "vendor_specific_identifier": ctx.int("vsi", 36)}},
            "device_type_specific_parameters": {"disk_block_length": ctx.int("dbl", 24)}}


def _good_segment(ctx, lid):
    sk, dk = ("source_target_descriptor_id", "destination_target_descriptor_id") if lid == 1 else \
        ("source_cscd_descriptor_id", "destination_cscd_descriptor_id")
    return {"descriptor_type_code": 2, "dc": ctx.int("dc", 1), sk: ctx.int("src", 16), dk: ctx.int("dst", 16),
            "block_device_number_of_blocks": ctx.int("nblk", 16),
            "source_block_device_logical_block_address": ctx.int("slba", 64),
            "destination_block_device_logical_block_address": ctx.int("dlba", 64)}


def h_xcopy(ctx, lid, case, key=None):
    t = _good_target(ctx, lid)
    g = _good_segment(ctx, lid)
    what = case
    if case == "target-extra-key":
        t[key] = ctx.int("extra_val", 8)
    elif case == "segment-extra-key":
        g[key] = ctx.int("extra_val", 8)
    elif case == "target-type-code":
        v = ctx.int("code", 9)
        valid = (v >= 0xE0) & (v <= (0xEA if lid == 1 else 0xEC)) | (v == 0xFE if lid != 1 else False)
        if lid != 1:
            valid = ((v >= 0xE0) & (v <= 0xEC) & (v != 0xE3)) | (v == 0xFE)
        ctx.assume(~valid if not isinstance(valid, bool) else not valid)
        t["descriptor_type_code"] = v
    elif case == "segment-type-code":
        v = ctx.int("code", 9)
        if lid == 1:
            valid = v <= 0x15
        else:
            valid = (v <= 0x10) | ((v >= 0x13) & (v <= 0x19)) | (v == 0xBE) | (v == 0xBF)
        ctx.assume(~valid if not isinstance(valid, bool) else not valid)
        g["descriptor_type_code"] = v
    elif case == "device-type":
        v = ctx.int("pdt", 5)
        ok = [0, 1, 3, 4, 5, 7, 14] if lid == 1 else [0, 1, 3, 5, 14]
        for k in ok:
            ctx.assume(v != k)
        t["peripheral_device_type"] = v
    elif case == "lu-id-type":
        v = ctx.int("lu_id_type", 2, lo=1)
        t["lu_id_type"] = v
    elif case == "segment-foreign-keys":
        # the keys of a block->block segment under the type code of a block<->stream segment (and the other way
        # round would be a different key set): unknown keys for that type -- also after a valid command whose segment
        # legitimately carried exactly these keys
        if ctx.choose("history", ["first request", "after a valid block->block copy with the same keys"]):
            st0, r0, dev0, _ = _xcopy(ctx, lid, [_good_target(ctx, lid)], [dict(g)])
            ctx.check("the valid copy is accepted", ctx.oracle(st0 == "ok"), repr(r0))
        g["descriptor_type_code"] = [0x00, 0x01, 0x0B, 0x0C][ctx.choose("stream-type", ["00", "01", "0B", "0C"])]
    elif case == "missing-type-code":
        del t["descriptor_type_code"]
    elif case == "segment-missing-type-code":
        del g["descriptor_type_code"]
    else:
        raise AssertionError(case)
    st, r, dev, n0 = _xcopy(ctx, lid, [t], [g])
    _refused(ctx, st, r, dev, n0, "ValueError", what)


def h_transport_id(ctx, via, case):
    """iSCSI TransportID: session id without the format flag / format flag without a session id"""
    s, dev, n0 = _facade("spc")
    tid = {"protocol_id": 5, "iscsi_name": "iqn.2001-04.com.example:x"}
    if case == "sid-without-flag":
        tid["iscsi_initiator_session_id"] = "0123"
        w = ctx.choose("flag", ["absent", "zero", "none"])
        if w:
            tid["tpid_format"] = 0 if w == 1 else None
    else:
        tid["tpid_format"] = 1
        which = ctx.choose("sid", ["absent", "empty", "none"])
        if which == 1:
            tid["iscsi_initiator_session_id"] = ""
        elif which == 2:
            tid["iscsi_initiator_session_id"] = None
    rk, sark = ctx.int("reservation_key", 64), ctx.int("service_action_reservation_key", 64)
    scope, prt = ctx.int("scope", 4), ctx.int("pr_type", 4)
    if via == "register-and-move":
        st, r = ctx.attempt(s.persistentreserveout, 7, scope, prt, reservation_key=rk, service_action_reservation_key=sark,
                            unreg=ctx.int("unreg", 1), aptpl=ctx.int("aptpl", 1),
                            relative_target_port_id=ctx.int("rtpi", 16), transport_id=tid)
    else:
        st, r = ctx.attempt(s.persistentreserveout, 0, scope, prt, reservation_key=rk, service_action_reservation_key=sark,
                            spec_i_pt=1, all_tg_pt=ctx.int("all_tg_pt", 1), aptpl=ctx.int("aptpl", 1),
                            transport_ids=[{"protocol_id": 6, "sas_address": bytearray(8)}] + (
                                [{"protocol_id": 5, "iscsi_name": tid["iscsi_name"]}]
                                if ctx.choose("earlier entry for the same port", ["no", "yes"]) else []) + [tid])
    _refused(ctx, st, r, dev, n0, "ValueError", "%s/%s" % (via, case))


def obligations(tier):
    from symx.harness import Ob
    obs = []
    for cmd in ("READ(10)", "READ(12)", "READ(16)", "WRITE(10)", "WRITE(12)", "WRITE(16)", "WRITE SAME(10)",
                "WRITE SAME(16)", "ATA PASS-THROUGH(12)", "ATA PASS-THROUGH(16)"):
        obs.append(Ob("blocksize/%s" % cmd, MOD, "h_blocksize", {"cmd": cmd}))
    for cmd in L.CDB:
        obs.append(Ob("opcode-group/%s" % cmd, MOD, "h_opcode", {"cmd": cmd}))
    for st in ("spc", "sbc", "ssc", "smc"):
        obs.append(Ob("prin-service-action/%s" % st, MOD, "h_prin_sa", {"set_name": st}))
    for lid in (1, 4):
        for case in ("target-type-code", "segment-type-code", "device-type", "lu-id-type", "missing-type-code",
                     "segment-missing-type-code") + (("segment-foreign-keys",) if lid == 1 else ()):
            obs.append(Ob("xcopy-lid%d/%s" % (lid, case), MOD, "h_xcopy", {"lid": lid, "case": case}))
        for key in _EXTRA_KEYS:
            obs.append(Ob("xcopy-lid%d/target-extra-key/%r" % (lid, key), MOD, "h_xcopy",
                          {"lid": lid, "case": "target-extra-key", "key": key}))
            obs.append(Ob("xcopy-lid%d/segment-extra-key/%r" % (lid, key), MOD, "h_xcopy",
                          {"lid": lid, "case": "segment-extra-key", "key": key}))
    for via in ("register-and-move", "register-spec_i_pt"):
        for case in ("sid-without-flag", "flag-without-sid"):
            obs.append(Ob("transport-id/%s/%s" % (via, case), MOD, "h_transport_id", {"via": via, "case": case}))
    return obs


CANARIES = {"quick": 30, "thorough": None}

INFO = {
    "explanation": "Each refusal class is run through the facade over a recording device with every other argument "
                   "symbolic and the refused quantity ranging over its whole invalid domain; z3 decides on every path "
                   "that the named exception is raised (for operation codes: an instance of SCSICommand.OpcodeException) and the "
                   "execute count stays 0 -- also after a valid request of the same kind (class used before, copy with the "
                   "same key set, earlier TransportID for the same port).",
    "functions": ["__init__ of scsi_cdb_read*/write*/writesame*/atapassthrough*", "SCSICommand.init_cdb",
                  "SCSI.persistentreservein", "ExtendedCopy.marshall_target/marshall_cscd/marshall_segment/"
                  "encode_segment_dict/get_code_int (spc4 and spc5)", "PersistentReserveInReadFullStatus.marshall_transport_id"],
    "bounds": {"opcode value": "-1024..3071", "service action": "4..65535", "type codes": "0..511",
               "extra keys": "5-name alphabet", "descriptors": "one target + one segment descriptor per list"},
    "outside": ["accepted but unimplemented descriptor codes (NotImplementedError) -- the property speaks of unknown codes",
                "non-iSCSI TransportIDs (no consistency rule applies)"],
    "assumptions": ["recording device stands for any transport (nothing below device.execute is involved in a refusal)"],
}
