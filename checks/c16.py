"""C16 -- attaching selects the command set of the device's peripheral device type.

SCSI(dev) / scsi(dev2) over devices whose standard INQUIRY data byte 0 (peripheral
qualifier + device type) is a solver variable; histories of up to three attaches
with independent types, over a plain recording device and both real device classes
(stub bindings)."""
from spec import cdb_layouts as L
from spec import t10_codes as T

MOD = "checks.c16"


class _Inq:
    """writes the symbolic INQUIRY byte 0 into the data-in buffer of whatever is executed"""

    def __init__(self, byte0):
        self.byte0 = byte0
        self.cdbs = []

    def sgio(self, env, call):
        self.cdbs.append(call.cdb)
        if len(call.datain):
            call.datain[0] = self.byte0
        return 0

    def iscsi(self, env, task):
        self.cdbs.append(task.cdb)
        if len(task.datain):
            task.datain[0] = self.byte0
        task.status = 0


def _mk(kind, byte0):
    from stubs import env
    from stubs.recdev import RecDevice
    sc = _Inq(byte0)
    if kind == "plain":
        def onx(dev, cmd):
            sc.cdbs.append(cmd.cdb)
            if len(cmd.datain):
                cmd.datain[0] = byte0
        return RecDevice(on_execute=onx), sc
    sd, idv = env.install()
    env.ENV.reset(sc)
    if kind == "sgio":
        return sd.SCSIDevice("/dev/sg1"), sc
    return idv.ISCSIDevice("iscsi://h/t/1", "iqn.test"), sc


def _expect(ctx, dev, b0, tag, before=None):
    import pyscsi.pyscsi.scsi_enum_command as ec
    t = b0 & 0x1F
    ctx.check(tag + "devicetype is the reported peripheral device type", dev.devicetype == ctx.oracle(t))
    ops = dev.opcodes
    if (t == 0) | (t == 4) | (t == 7):
        ctx.check(tag + "block devices (00h, 04h, 07h) get SBC", ops is ctx.oracle(ec.sbc))
    elif t == 1:
        ctx.check(tag + "sequential-access devices get SSC", ops is ctx.oracle(ec.ssc))
    elif t == 5:
        ctx.check(tag + "CD/DVD devices get MMC", ops is ctx.oracle(ec.mmc))
    elif t == 8:
        ctx.check(tag + "media changers get SMC", ops is ctx.oracle(ec.smc))
    elif before is not None:
        # processor / unrecognised types: the device keeps its own set (or gets the primary one); the set of a
        # previously attached device must not leak in.  (printer 02h / communications 09h devices are given the
        # SSC table by the library, which also offers the primary commands.)
        own = (ops is before) | (ops is ec.spc) if True else None
        if (t == 2) | (t == 9):
            own = own or (ops is ec.ssc)
        ctx.check(tag + "no other device's command set leaks into a device of unrecognised type", ctx.oracle(bool(own)))
    # every type, recognised or not: the primary commands are on offer with their T10 codes
    for name in ("INQUIRY", "TEST_UNIT_READY", "REPORT_LUNS"):
        ctx.check(tag + "selected set offers %s" % name,
                  name in ops.keys and getattr(ops, name).value == ctx.oracle(T.SPC[name]))


def _check_inquiry_cdb(ctx, cdbs, tag):
    ctx.check(tag + "exactly one command sent while attaching", len(cdbs) == ctx.oracle(1))
    if cdbs:
        spec = L.CDB["INQUIRY"]
        cdb = cdbs[0]
        ctx.check(tag + "it is a 6-byte INQUIRY", len(cdb) == 6 and cdb[0] == ctx.oracle(0x12))
        d = L.decode_cdb(spec, cdb)
        ctx.check(tag + "standard INQUIRY (EVPD=0, page code 0)", (d["evpd"] == 0) & (d["page_code"] == 0))
        ctx.check(tag + "non-zero allocation length", d["alloclen"] >= 5)


def h_attach(ctx, kinds):
    """history: SCSI(dev0); scsi(dev1); scsi(dev2) ... with independent symbolic types"""
    from pyscsi.pyscsi.scsi import SCSI
    devs, scs, b0s = [], [], []
    s = None
    for i, kind in enumerate(kinds):
        b0 = ctx.int("inq_byte0_%d" % i, 8)
        if kind == "plain" or i == 0 or kinds[i - 1] == "plain":
            dev, sc = _mk(kind, b0)
        else:
            # a second real device: keep the stub module instances (same classes), new scenario
            from stubs import env
            sc = _Inq(b0)
            env.ENV.scenario = sc
            import sys
            dev = (sys.modules["pyscsi.pyscsi.scsi_device"].SCSIDevice("/dev/sg%d" % (i + 1)) if kind == "sgio" else
                   sys.modules["pyscsi.pyiscsi.iscsi_device"].ISCSIDevice("iscsi://h/t/%d" % i, "iqn.test"))
        devs.append(dev)
        scs.append(sc)
        b0s.append(b0)
        own_before = dev.opcodes
        if s is None:
            s = SCSI(dev)
        else:
            s(dev)
        ctx.check("attach %d: facade now drives the new device" % i, s.device is dev)
        _check_inquiry_cdb(ctx, sc.cdbs, "attach %d: " % i)
        _expect(ctx, dev, b0, "attach %d: " % i, before=own_before)
        # earlier devices keep the set selected for *their* type
        for j in range(i):
            _expect(ctx, devs[j], b0s[j], "after attach %d, device %d: " % (i, j))


def obligations(tier):
    from symx.harness import Ob
    obs = []
    for k in ("plain", "sgio", "iscsi"):
        obs.append(Ob("attach/%s" % k, MOD, "h_attach", {"kinds": [k]}))
    seqs = [["plain", "plain"], ["sgio", "iscsi"], ["iscsi", "sgio"], ["sgio", "sgio"], ["iscsi", "iscsi"]]
    if tier == "thorough":
        seqs += [["plain", "plain", "plain"], ["plain", "sgio", "iscsi"], ["iscsi", "iscsi", "iscsi"], ["sgio", "sgio", "sgio"]]
    for sq in seqs:
        obs.append(Ob("history/" + "-".join(sq), MOD, "h_attach", {"kinds": sq}, split=len(sq) > 2))
    return obs


INFO = {
    "explanation": "INQUIRY byte 0 of every attached device is a solver variable (all 32 types x 8 qualifiers); the real "
                   "SCSI.__init__/__call__ run over it; on every path z3 decides that the selected table is the one the "
                   "property names for that type, that the primary commands are on offer, that exactly one standard "
                   "INQUIRY was sent, and that earlier devices keep their own selection.",
    "functions": ["SCSI.__init__", "SCSI.__call__", "SCSI.__init_opcode", "SCSI.inquiry", "Inquiry.unmarshall_datain",
                  "SCSIDevice/ISCSIDevice opcodes/devicetype properties"],
    "bounds": {"byte 0": "all 256 values per device", "history": "1..2 attaches quick, ..3 thorough", "devices": "plain "
               "recording device, SCSIDevice and ISCSIDevice over stubs"},
    "outside": ["INQUIRY failing during attach (C07)", "more than three attaches"],
    "assumptions": ["stub bindings", "type->command set table of the property text"],
}
