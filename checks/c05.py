"""C05 -- parameter lists sent to the device have the standard layout and honest lengths.

Parameter dictionaries are enumerated structurally (service actions, TransportID kinds,
iSCSI name lengths incl. every padding boundary, 0..n descriptors of every implemented
type, every mode page the library can marshal) with all numeric leaves symbolic; the
real constructor runs; cmd.dataout is compared byte for byte with the independent
builder of spec/paramlists.py, and the CDB's parameter list length with len(dataout)."""
from spec import cdb_layouts as L
from spec import paramlists as P
from spec import responses as R

from . import common as K

MOD = "checks.c05"


def _cmp(ctx, label, got, want):
    ctx.check("%s: parameter list has the standard's length (%d)" % (label, len(want)), len(got) == ctx.oracle(len(want)),
              "got %d" % len(got))
    for i in range(min(len(got), len(want))):
        ctx.check("%s: byte %d" % (label, i), got[i] == ctx.oracle(want[i]))


def _pll(ctx, spec, c):
    ctx.check("CDB parameter list length == len(dataout)", L._extract(c.cdb, spec["data"][2]) == ctx.oracle(len(c.dataout)))


def _tid(ctx, kind, name_len, tag=""):
    if kind == "fcp":
        return {"protocol_id": 0, "n_port_name": ctx.bytes(tag + "nport", 8)}
    if kind == "1394":
        return {"protocol_id": 3, "eui64_name": ctx.bytes(tag + "eui", 8)}
    if kind == "rdma":
        return {"protocol_id": 4, "initiator_port_identifier": ctx.bytes(tag + "ipi", 16)}
    if kind == "sas":
        return {"protocol_id": 6, "sas_address": ctx.bytes(tag + "sas", 8)}
    name = ("iqn.1993-08.org.debian:01:" + "y" * 250)[:name_len]
    if kind == "iscsi":
        return {"protocol_id": 5, "iscsi_name": name}
    return {"protocol_id": 5, "tpid_format": 1, "iscsi_name": name, "iscsi_initiator_session_id": "00023d000001"}


def h_prout(ctx, sa, shape, kinds=(), name_len=9, set_name="spc"):
    spec = L.CDB["PERSISTENT RESERVE OUT"]
    opcode = K.lookup_opcode(spec, set_name)
    kw = {"reservation_key": ctx.int("rk", 64), "service_action_reservation_key": ctx.int("sark", 64)}
    if shape == "ram":
        kw.update(unreg=ctx.int("unreg", 1), aptpl=ctx.int("aptpl", 1), relative_target_port_id=ctx.int("rtpi", 16))
        if kinds:
            kw["transport_id"] = _tid(ctx, kinds[0], name_len)
    elif shape == "spec_i_pt":
        kw.update(spec_i_pt=1, all_tg_pt=ctx.int("all_tg_pt", 1), aptpl=ctx.int("aptpl", 1),
                  transport_ids=[_tid(ctx, k, name_len, "t%d_" % i) for i, k in enumerate(kinds)])
    else:
        kw.update(all_tg_pt=ctx.int("all_tg_pt", 1), aptpl=ctx.int("aptpl", 1))
        if shape == "basic-partial":
            del kw["service_action_reservation_key"]
    scope, prt = ctx.int("scope", 4), ctx.int("pr_type", 4)
    cls = K.get_class(spec)
    want = P.pr_out(sa, kw)
    c = cls(opcode, sa, scope, prt, **kw)
    _cmp(ctx, "PR OUT sa=%d %s" % (sa, shape), c.dataout, want)
    _pll(ctx, spec, c)
    # embedded lengths are honest: they equal the number of bytes that follow
    if shape == "ram":
        ctx.check("TRANSPORTID LENGTH equals the bytes that follow", L._extract(c.dataout, L.BE(20, 4)) == len(c.dataout) - 24)
    if shape == "spec_i_pt":
        ctx.check("TRANSPORTID PARAMETER DATA LENGTH equals the bytes that follow",
                  L._extract(c.dataout, L.BE(24, 4)) == len(c.dataout) - 28)


def _page(ctx, kind, tag=""):
    code, sub, lay, size = R.MODE_PAGES[kind]
    mp = {"page_code": code, "spf": 0 if sub is None else 1, "ps": ctx.int(tag + "ps", 1)}
    if sub is not None:
        mp["sub_page_code"] = sub
    for k, segs in lay.items():
        mp[k] = ctx.int(tag + k, L.width(segs))
    return mp


def h_modeselect(ctx, ten, kinds, set_name="spc", from_sense=False):
    spec = L.CDB["MODE SELECT(10)" if ten else "MODE SELECT(6)"]
    opcode = K.lookup_opcode(spec, set_name)
    data = {"medium_type": ctx.int("medium_type", 8), "device_specific_parameter": ctx.int("dsp", 8),
            "mode_pages": [_page(ctx, k, "p%d_" % i) for i, k in enumerate(kinds)]}
    if ten:
        data["longlba"] = ctx.int("longlba", 1)
    pf, sp = ctx.int("pf", 1), ctx.int("sp", 1)
    want = P.mode_select(ten, data)
    if from_sense:
        # the dictionary comes out of a MODE SENSE of a device that returned a block descriptor: header fields of that
        # response may ride along; the library sends no block descriptors, so BLOCK DESCRIPTOR LENGTH stays 0
        data["mode_data_length"] = ctx.int("sense_mdl", 16 if ten else 8)
        data["block_descriptor_length"] = ctx.int("sense_bdl", 16 if ten else 8)
    c = K.get_class(spec)(opcode, data, pf=pf, sp=sp)
    got = c.dataout
    n = len(want)
    ctx.check("parameter list has the standard's length (%d)" % n, len(got) == ctx.oracle(n), "got %d" % len(got))
    hl = 2 if ten else 1
    # MODE DATA LENGTH is reserved in MODE SELECT: zero, or the value MODE SENSE would report, are both tolerated
    mdl = L._extract(got, L.BE(0, hl))
    ctx.check("mode data length field is 0 or the MODE SENSE value", (mdl == 0) | (mdl == ctx.oracle(n - hl)))
    for i in range(hl, min(len(got), n)):
        ctx.check("byte %d" % i, got[i] == ctx.oracle(want[i]))
    _pll(ctx, spec, c)
    d = L.decode_cdb(spec, c.cdb)
    ctx.check("PF and SP reach the CDB", (d["pf"] == pf) & (d["sp"] == sp))


def _target(ctx, lid, pdt, desig, tag=""):
    pkey = "target_descriptor_parameters" if lid == 1 else "cscd_descriptor_parameters"
    if desig == "naa5":
        d = (3, {"naa": 5, "ieee_company_id": ctx.int(tag + "cid", 24), "vendor_specific_identifier": ctx.int(tag + "vsi", 36)})
    elif desig == "naa6":
        d = (3, {"naa": 6, "ieee_company_id": ctx.int(tag + "cid", 24), "vendor_specific_identifier": ctx.int(tag + "vsi", 36),
                 "vendor_specific_identifier_extension": ctx.int(tag + "vsie", 64)})
    elif desig == "naa3":
        d = (3, {"naa": 3, "locally_administered_value": ctx.int(tag + "lav", 60)})
    elif desig == "naa2":
        d = (3, {"naa": 2, "vendor_specific_identifier_a": ctx.int(tag + "vsa", 12), "ieee_company_id": ctx.int(tag + "cid", 24),
                 "vendor_specific_identifier_b": ctx.int(tag + "vsb", 24)})
    elif desig == "eui8":
        d = (2, {"ieee_company_id": ctx.int(tag + "cid", 24), "vendor_specific_extension_id": ctx.bytes(tag + "ext", 5)})
    elif desig == "eui16":
        d = (2, {"identifier_extension": ctx.bytes(tag + "ie", 8), "ieee_company_id": ctx.int(tag + "cid", 24),
                 "vendor_specific_extension_id": ctx.bytes(tag + "ext", 5)})
    elif desig == "t10":
        d = (1, {"t10_vendor_id": ctx.bytes(tag + "t10", 8), "vendor_specific_id": ctx.bytes(tag + "vsid", 8)})
    elif desig == "md5":
        d = (7, {"md5_logical_identifier": ctx.bytes(tag + "md5", 16)})
    elif desig == "name":
        d = (8, {"scsi_name_string": bytearray(b"naa.5000c5000000abcd")})
    elif desig == "vendor":
        d = (0, {"vendor_specific": ctx.bytes(tag + "vs", 6)})
    else:
        raise AssertionError(desig)
    t = {"descriptor_type_code": 0xE4, "peripheral_device_type": pdt,
         "relative_initiator_port_identifier": ctx.int(tag + "ripi", 16),
         pkey: {"code_set": ctx.int(tag + "cs", 4), "association": ctx.int(tag + "assoc", 2), "designator_type": d[0],
                "designator": d[1]}}
    dp = {"pad": ctx.int(tag + "pad", 1)}
    if pdt == 1:
        dp.update(fixed=ctx.int(tag + "fixed", 1), stream_block_length=ctx.int(tag + "sbl", 24))
    elif pdt != 3:
        dp["disk_block_length"] = ctx.int(tag + "dbl", 24)
    t["device_type_specific_parameters"] = dp
    return t


def _segment(ctx, lid, code, tag=""):
    sk, dk = ("source_target_descriptor_id", "destination_target_descriptor_id") if lid == 1 else \
        ("source_cscd_descriptor_id", "destination_cscd_descriptor_id")
    s = {"descriptor_type_code": code, "cat": ctx.int(tag + "cat", 1), sk: ctx.int(tag + "src", 16), dk: ctx.int(tag + "dst", 16),
         "block_device_number_of_blocks": ctx.int(tag + "nblk", 16)}
    if code in (2, 13):
        s.update(dc=ctx.int(tag + "dc", 1), source_block_device_logical_block_address=ctx.int(tag + "slba", 64),
                 destination_block_device_logical_block_address=ctx.int(tag + "dlba", 64))
        if lid != 1:
            s["fco"] = ctx.int(tag + "fco", 1)
    else:
        s.update(stream_device_transfer_length=ctx.int(tag + "sdtl", 24),
                 block_device_logical_block_address=ctx.int(tag + "lba", 64))
    return s


def h_xcopy(ctx, lid, targets, segments, inline_len, set_name="spc", stale_length=False):
    spec = L.CDB["EXTENDED COPY(LID1)" if lid == 1 else "EXTENDED COPY(LID4)"]
    opcode = K.lookup_opcode(spec, set_name)
    tl = [_target(ctx, lid, pdt, des, "t%d_" % i) for i, (pdt, des) in enumerate(targets)]
    sl = [_segment(ctx, lid, code, "s%d_" % i) for i, code in enumerate(segments)]
    if stale_length:
        # the dictionary already carries a DESCRIPTOR LENGTH (left there by an earlier marshalling of another
        # segment type, or supplied by the caller): the emitted length must still be the one that follows
        for i, sd in enumerate(sl):
            sd["descriptor_length"] = ctx.int("stale_len%d" % i, 16)
        # ... likewise a DESIGNATOR LENGTH inside an identification descriptor (the class docstring's own example
        # passes one): the library computes that length, whatever the dictionary says
        pkey = "target_descriptor_parameters" if lid == 1 else "cscd_descriptor_parameters"
        for i, td in enumerate(tl):
            td[pkey]["designator_length"] = ctx.int("stale_dlen%d" % i, 8)
    big = inline_len > 4096
    inline = bytearray(b"\xc3" * inline_len) if big else ctx.bytes("inline", inline_len)
    want_t = [dict(t) for t in tl]
    want_s = [dict(s) for s in sl]
    cls = K.get_class(spec)
    if lid == 1:
        hdr = {"list_identifier": ctx.int("list_identifier", 8), "sequential_striped": ctx.int("str", 1),
               "nrcr": ctx.int("nrcr", 1), "priority": ctx.int("priority", 3)}
        want = P.xcopy(1, hdr, want_t, want_s, inline)
        c = cls(opcode, hdr["list_identifier"], hdr["sequential_striped"], hdr["nrcr"], hdr["priority"], tl, sl, inline)
    else:
        hdr = {"sequential_striped": ctx.int("str", 1), "list_id_usage": ctx.int("list_id_usage", 2),
               "priority": ctx.int("priority", 3), "g_sense": ctx.int("g_sense", 1), "immed": ctx.int("immed", 1),
               "list_identifier": ctx.int("list_identifier", 32)}
        want = P.xcopy(4, hdr, want_t, want_s, inline)
        c = cls(opcode, hdr["sequential_striped"], hdr["list_id_usage"], hdr["priority"], hdr["g_sense"], hdr["immed"],
                hdr["list_identifier"], tl, sl, inline)
    if big:
        # megabyte-sized inline data: compare the length, the header and descriptors, and the tail
        ctx.check("parameter list has the standard's length (%d)" % len(want), len(c.dataout) == ctx.oracle(len(want)))
        hdr = len(want) - inline_len
        for i in list(range(hdr)) + [len(want) - 1]:
            ctx.check("byte %d" % i, c.dataout[i] == ctx.oracle(want[i]))
    else:
        _cmp(ctx, "EXTENDED COPY LID%d" % lid, c.dataout, want)
    _pll(ctx, spec, c)
    ctx.check("service action in the CDB", L._extract(c.cdb, spec["sa"][0]) == ctx.oracle(spec["sa"][1]))


def obligations(tier):
    from symx.harness import Ob
    q = tier == "quick"
    obs = []

    def add(name, func, **p):
        obs.append(Ob(name, MOD, func, p))
    for sa in range(0, 9):
        if sa == 7:
            continue
        add("prout/sa=%d/basic" % sa, "h_prout", sa=sa, shape="basic")
    add("prout/sa=1/basic-partial", "h_prout", sa=1, shape="basic-partial")
    for st in ("sbc", "ssc", "smc"):
        add("prout/sa=0/basic/%s" % st, "h_prout", sa=0, shape="basic", set_name=st)
    kinds = ["fcp", "1394", "rdma", "sas", "iscsi", "iscsi-isid"]
    add("prout/ram/no-transport-id", "h_prout", sa=7, shape="ram", kinds=[])
    for k in kinds:
        add("prout/ram/%s" % k, "h_prout", sa=7, shape="ram", kinds=[k])
    add("prout/spec_i_pt/0", "h_prout", sa=0, shape="spec_i_pt", kinds=[])
    for ks in ([["sas"], ["iscsi", "fcp"], ["rdma", "iscsi-isid"]] + ([] if q else [["fcp", "1394", "rdma", "sas"],
                                                                                    ["iscsi", "iscsi", "iscsi-isid", "sas"]])):
        add("prout/spec_i_pt/%s" % "+".join(ks), "h_prout", sa=0, shape="spec_i_pt", kinds=ks)
    # (with a session id the text is name + ",i,0x" + 12 digits: 206/207 are where it crosses 223 characters)
    for nl in ((0, 1, 2, 3, 4, 5, 6, 7, 8, 206, 207, 222, 223) if q else range(0, 224)):
        if not (q and nl in (206, 207)):
            add("prout/ram/iscsi/name-len=%d" % nl, "h_prout", sa=7, shape="ram", kinds=["iscsi"], name_len=nl)
        add("prout/ram/iscsi-isid/name-len=%d" % nl, "h_prout", sa=7, shape="ram", kinds=["iscsi-isid"], name_len=nl)
    for ten in (False, True):
        nm = "modeselect%d" % (10 if ten else 6)
        for k in R.MODE_PAGES:
            add("%s/%s" % (nm, k), "h_modeselect", ten=ten, kinds=[k])
        add("%s/two-pages" % nm, "h_modeselect", ten=ten, kinds=["control", "disconnect"])
        add("%s/dictionary-from-mode-sense" % nm, "h_modeselect", ten=ten, kinds=["control"], from_sense=True)
        add("%s/no-pages" % nm, "h_modeselect", ten=ten, kinds=[])
        if not q:
            add("%s/four-pages" % nm, "h_modeselect", ten=ten, kinds=list(R.MODE_PAGES))
    desigs = ["naa5", "naa6", "naa3", "naa2", "eui8", "eui16", "t10", "md5", "name", "vendor"]
    for lid in (1, 4):
        add("xcopy%d/empty" % lid, "h_xcopy", lid=lid, targets=[], segments=[], inline_len=0)
        for des in desigs:
            add("xcopy%d/target/%s" % (lid, des), "h_xcopy", lid=lid, targets=[[0, des]], segments=[], inline_len=0)
        for pdt in ((0, 1, 3, 5, 14) + ((4, 7) if lid == 1 else ())):
            add("xcopy%d/target/pdt=%d" % (lid, pdt), "h_xcopy", lid=lid, targets=[[pdt, "naa5"]], segments=[], inline_len=0)
        for code in (0, 11, 1, 12, 2, 13):
            add("xcopy%d/segment/%02x" % (lid, code), "h_xcopy", lid=lid, targets=[], segments=[code], inline_len=0)
        for code in (0, 2):
            add("xcopy%d/segment/%02x/stale-descriptor-length" % (lid, code), "h_xcopy", lid=lid, targets=[], segments=[code],
                inline_len=0, stale_length=True)
        for des in ("naa5", "t10"):
            add("xcopy%d/target/%s/stale-designator-length" % (lid, des), "h_xcopy", lid=lid, targets=[[0, des]], segments=[],
                inline_len=0, stale_length=True)
        for il in ((0, 1, 9) if q else range(0, 10)):
            add("xcopy%d/two-targets-two-segments/inline=%d" % (lid, il), "h_xcopy", lid=lid,
                targets=[[0, "naa5"], [1, "eui8"]], segments=[2, 0], inline_len=il)
        if lid == 1:
            add("xcopy1/inline=65539", "h_xcopy", lid=1, targets=[], segments=[2], inline_len=65539)
        else:
            add("xcopy4/inline=65535", "h_xcopy", lid=4, targets=[], segments=[2], inline_len=65535)
        if not q:
            add("xcopy%d/four-targets-four-segments" % lid, "h_xcopy", lid=lid,
                targets=[[0, "naa5"], [1, "t10"], [3, "naa6"], [5, "naa3"]], segments=[2, 13, 0, 11], inline_len=3)
    return obs


CANARIES = {"quick": 40, "thorough": 80}

INFO = {
    "explanation": "The real constructors of ModeSelect6/10, PersistentReserveOut and ExtendedCopy (SPC-4 and SPC-5 forms) run on "
                   "parameter dictionaries whose numeric leaves are solver variables and whose structure is enumerated; the "
                   "emitted parameter list is compared byte for byte with an independent standard-derived builder, and every "
                   "embedded length and the CDB's parameter list length with the number of bytes that follow.",
    "functions": ["ModeSelect6/10.__init__", "ModeSense6/10.marshall_datain", "PersistentReserveOut.__init__/marshall_dataout",
                  "PersistentReserveInReadFullStatus.marshall_transport_id", "_pad4_len",
                  "ExtendedCopy.marshall_parameter_list/marshall_target|marshall_cscd/marshall_target_descriptor_parameters/"
                  "marshall_designator_descriptor/marshall_segment/encode_segment_dict (spc4+spc5)", "Inquiry.marshall_designator"],
    "bounds": {"TransportIDs": "6 kinds; iSCSI name lengths 0..8, 222, 223 quick / every length 0..223 thorough",
               "descriptors": "<= 2 targets + 2 segments quick / 4+4 thorough; inline data 0..9 bytes", "mode pages": "all four "
               "marshal-able pages, 0..2 (4) pages per list"},
    "outside": ["non-ASCII iSCSI names", "CSCD descriptor types other than E4h and segment types other than 00/01/02/0B/0C/0D "
                "(NotImplementedError in the library)"],
    "assumptions": ["spec/paramlists.py (trusted transcription)"],
}
