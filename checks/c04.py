"""C04 -- well-formed device responses are decoded to the values the device sent.

For every response format the library parses, spec/responses.py lays a response out
as the standard prescribes: the *structure* (descriptor counts, kinds, flags that
change the layout, page codes, service actions, sector layouts) is enumerated, every
*field* is a solver variable, lengths and counts are computed by the builder; 0 / 5 /
13 symbolic trailing bytes may follow.  The real unmarshall routine runs on that
buffer; z3 decides that each reported field equals the variable placed at the
standard's position, that every descriptor inside the reported length is returned,
in order, and nothing beyond it."""
from spec import cdb_layouts as L
from spec import responses as R
from symx.ctx import Skip

from .respcommon import covers

MOD = "checks.c04"


def _buf(ctx, data):
    if ctx.symbolic:
        from symx.values import SymBytes
        return SymBytes(list(data))
    return bytearray(data)


def _prior(ctx, cmd):
    """what happened before the response is decoded is the solver's choice too: nothing, or other commands of the
    same class were built (all one-bit arguments 0, then all 1 -- or the other way round).  A decoder is a function
    of the buffer and its own arguments, not of the commands constructed earlier."""
    from . import common as K
    which = ctx.choose("before-decoding", ["nothing", "commands built, flags-on last", "commands built, flags-off last"])
    if which == 0:
        return
    spec = L.CDB[cmd]
    st_name = "spc" if "spc" in spec["sets"] else list(spec["sets"])[0]
    a0, e0 = K.concrete_args(spec)
    on = dict(a0, **{n: 1 for n, segs in spec["fields"].items() if L.width(segs) == 1})
    for args in ((a0, on) if which == 1 else (on, a0)):
        ctx.attempt(K.build, spec, K.lookup_opcode(spec, st_name), dict(args), dict(e0))


def _run(ctx, label, fn, data, exp, cmd=None, **kw):
    if cmd is not None:
        _prior(ctx, cmd)
    st, r = ctx.attempt(fn, _buf(ctx, data), **kw)
    ctx.check("%s: a well-formed response is decoded without error" % label, ctx.oracle(st == "ok"), repr(r))
    if st == "ok":
        covers(ctx, label, r, exp)
        # decoding is a function of the buffer: the same response decoded again gives the same result
        st2, r2 = ctx.attempt(fn, _buf(ctx, data), **kw)
        if st2 == "ok":
            covers(ctx, label + " (decoded a second time)", r2, exp)
        else:
            ctx.check("%s: decodes a second time" % label, False, repr(r2))
    return st, r


def h_inquiry(ctx, what, arg=None, trailing=0):
    from pyscsi.pyscsi.scsi_cdb_inquiry import Inquiry
    if what == "standard":
        data, exp = R.inquiry_standard(ctx, trailing)
        return _run(ctx, "standard INQUIRY", Inquiry.unmarshall_datain, data, exp, cmd="INQUIRY", evpd=0)
    if what == "fixed":
        data, exp = R.vpd_fixed(ctx, arg, trailing)
    elif what == "supported":
        data, exp = R.vpd_supported_pages(ctx, arg, trailing)
    elif what == "serial":
        data, exp = R.vpd_serial(ctx, arg, trailing)
    else:
        data, exp = R.vpd_device_identification(ctx, arg, trailing, concrete_headers=len(arg) > 4)
        for d in exp["designator_descriptors"]:
            R.fix_protocol_identifier(d, d["piv"], d["association"])
    return _run(ctx, "VPD %s %s" % (what, arg), Inquiry.unmarshall_datain, data, exp, cmd="INQUIRY", evpd=1)


def h_mode_sense(ctx, ten, kinds, bd, trailing=0):
    from pyscsi.pyscsi.scsi_cdb_modesense6 import ModeSense6
    from pyscsi.pyscsi.scsi_cdb_modesense10 import ModeSense10
    data, exp = R.mode_sense(ctx, ten, kinds, bd, trailing)
    if ctx.known("C04-mode-sense-first-page-only") and len(kinds) > 1:
        exp = dict(exp, mode_pages=exp["mode_pages"][:1])
    cls = ModeSense10 if ten else ModeSense6
    return _run(ctx, "MODE SENSE(%d) %s" % (10 if ten else 6, kinds), cls.unmarshall_datain, data, exp,
                cmd="MODE SENSE(10)" if ten else "MODE SENSE(6)")


def h_simple(ctx, fmt, arg=None, trailing=0):
    from pyscsi.pyscsi import scsi_cdb_persistentreservein as P
    from pyscsi.pyscsi.scsi_cdb_getlbastatus import GetLBAStatus
    from pyscsi.pyscsi.scsi_cdb_readcapacity10 import ReadCapacity10
    from pyscsi.pyscsi.scsi_cdb_readcapacity16 import ReadCapacity16
    from pyscsi.pyscsi.scsi_cdb_readdiscinformation import ReadDiscInformation
    from pyscsi.pyscsi.scsi_cdb_readelementstatus import ReadElementStatus
    from pyscsi.pyscsi.scsi_cdb_report_luns import ReportLuns
    from pyscsi.pyscsi.scsi_cdb_report_priority import ReportPriority
    from pyscsi.pyscsi.scsi_cdb_report_target_port_groups import ReportTargetPortGroups
    if fmt == "readcapacity10":
        data, exp = R.read_capacity(ctx, False, trailing)
        fn = ReadCapacity10.unmarshall_datain
    elif fmt == "readcapacity16":
        data, exp = R.read_capacity(ctx, True, trailing)
        fn = ReadCapacity16.unmarshall_datain
    elif fmt == "getlbastatus":
        data, exp = R.get_lba_status(ctx, arg, trailing)
        fn = GetLBAStatus.unmarshall_datain
    elif fmt == "reportluns":
        data, exp = R.report_luns(ctx, arg, trailing)
        fn = ReportLuns.unmarshall_datain
    elif fmt == "rtpg":
        data, exp = R.report_target_port_groups(ctx, arg[0], arg[1], trailing)
        fn = ReportTargetPortGroups.unmarshall_datain
    elif fmt == "reportpriority":
        data, exp = R.report_priority(ctx, arg, trailing)
        fn = ReportPriority.unmarshall_datain
        if ctx.known("C04-report-priority-unusable") and arg > 0:
            st, r = ctx.attempt(fn, _buf(ctx, data))
            ctx.check("REPORT PRIORITY (pinned): raises AttributeError for any non-empty descriptor list",
                      st == "exc" and type(r) is AttributeError, repr(r))
            return
    elif fmt == "prin-readkeys":
        data, exp = R.prin_read_keys(ctx, arg, trailing)
        fn = P.PersistentReserveInReadKeys.unmarshall_datain
    elif fmt == "prin-readreservation":
        data, exp = R.prin_read_reservation(ctx, arg, trailing)
        fn = P.PersistentReserveInReadReservation.unmarshall_datain
    elif fmt == "prin-reportcapabilities":
        data, exp = R.prin_report_capabilities(ctx, trailing)
        fn = P.PersistentReserveInReportCapabilities.unmarshall_datain
    elif fmt == "prin-readfullstatus":
        data, exp = R.prin_read_full_status(ctx, arg[0], trailing, arg[1])
        fn = P.PersistentReserveInReadFullStatus.unmarshall_datain
    elif fmt == "readelementstatus":
        data, exp = R.read_element_status(ctx, arg, trailing)
        fn = ReadElementStatus.unmarshall_datain
    elif fmt == "readdiscinformation":
        data, exp = R.read_disc_information(ctx, arg, trailing)
        fn = ReadDiscInformation.unmarshall_datain
    else:
        raise AssertionError(fmt)
    return _run(ctx, fmt, fn, data, exp)


def h_read_cd(ctx, config, nsectors):
    from pyscsi.pyscsi.scsi_cdb_readcd import ReadCd
    data, exp, kw = R.read_cd(ctx, config, 0x1000, nsectors)
    return _run(ctx, "READ CD %s" % config, ReadCd.unmarshall_datain, data, exp, **kw)


def obligations(tier):
    from symx.harness import Ob
    q = tier == "quick"
    K = 2 if q else 6
    trails = (0, 5) if q else (0, 1, 5, 13)
    obs = []

    def add(name, func, **params):
        obs.append(Ob(name, MOD, func, params))
    for t in trails:
        add("inquiry/standard/trail=%d" % t, "h_inquiry", what="standard", trailing=t)
        for page in R.VPD_FIXED:
            add("inquiry/vpd-%02x/trail=%d" % (page, t), "h_inquiry", what="fixed", arg=page, trailing=t)
        for n in range(0, K + 1):
            add("inquiry/vpd-00/n=%d/trail=%d" % (n, t), "h_inquiry", what="supported", arg=n, trailing=t)
        for n in (0, 1, 8, 20):
            add("inquiry/vpd-80/n=%d/trail=%d" % (n, t), "h_inquiry", what="serial", arg=n, trailing=t)
    # pages longer than 255 bytes: PAGE LENGTH is a two-byte field
    add("inquiry/vpd-80/n=300/trail=7", "h_inquiry", what="serial", arg=300, trailing=7)
    add("inquiry/vpd-00/n=260/trail=7", "h_inquiry", what="supported", arg=260, trailing=7)
    add("inquiry/vpd-83/13xnaa6/trail=7", "h_inquiry", what="devid", arg=["naa6"] * 13, trailing=7)
    for t in ():
        pass
    for k in R.DESIGNATOR_KINDS:
        add("inquiry/vpd-83/%s" % k, "h_inquiry", what="devid", arg=[k])
    add("inquiry/vpd-83/none", "h_inquiry", what="devid", arg=[])
    combos = [["naa5", "t10"], ["eui8", "relport", "tpg"], ["name", "naa6"]]
    if not q:
        combos += [["vendor", "md5", "lugroup", "eui16"], ["naa2", "naa3", "eui12", "t10"]]
    for c in combos:
        for t in trails:
            add("inquiry/vpd-83/%s/trail=%d" % ("+".join(c), t), "h_inquiry", what="devid", arg=c, trailing=t)
    for ten in (False, True):
        for kind in R.MODE_PAGES:
            for bd in (False, True):
                for t in trails:
                    add("modesense%d/%s/bd=%s/trail=%d" % (10 if ten else 6, kind, bd, t), "h_mode_sense", ten=ten,
                        kinds=[kind], bd=bd, trailing=t)
        add("modesense%d/two-pages" % (10 if ten else 6), "h_mode_sense", ten=ten, kinds=["disconnect", "control"], bd=True)
    for t in trails:
        add("readcapacity10/trail=%d" % t, "h_simple", fmt="readcapacity10", trailing=t)
        add("readcapacity16/trail=%d" % t, "h_simple", fmt="readcapacity16", trailing=t)
        for n in range(0, K + 1):
            add("getlbastatus/n=%d/trail=%d" % (n, t), "h_simple", fmt="getlbastatus", arg=n, trailing=t)
            add("reportluns/n=%d/trail=%d" % (n, t), "h_simple", fmt="reportluns", arg=n, trailing=t)
            add("prin-readkeys/n=%d/trail=%d" % (n, t), "h_simple", fmt="prin-readkeys", arg=n, trailing=t)
            add("reportpriority/n=%d/trail=%d" % (n, t), "h_simple", fmt="reportpriority", arg=n, trailing=t)
        for ext in (False, True):
            for ports in ([], [0], [1], [2, 1], [0, 2]) + (() if q else ([1, 0, 3], [4])):
                add("rtpg/ext=%s/ports=%s/trail=%d" % (ext, ports, t), "h_simple", fmt="rtpg", arg=[ext, list(ports)], trailing=t)
        for held in (False, True):
            add("prin-readreservation/held=%s/trail=%d" % (held, t), "h_simple", fmt="prin-readreservation", arg=held, trailing=t)
        add("prin-reportcapabilities/trail=%d" % t, "h_simple", fmt="prin-reportcapabilities", trailing=t)
        for d in (0, 1, 2):
            add("readdiscinformation/type=%d/trail=%d" % (d, t), "h_simple", fmt="readdiscinformation", arg=d, trailing=t)
    for kinds in ([], ["fcp"], ["1394"], ["rdma"], ["sas"], ["iscsi-name"], ["iscsi-name-isid"], ["sas", "fcp"],
                  ["iscsi-name", "rdma", "sas"]):
        add("prin-readfullstatus/%s" % "+".join(kinds or ["none"]), "h_simple", fmt="prin-readfullstatus", arg=[kinds, 9])
    for k in ("iscsi-name-utf8", "iscsi-name-isid-utf8", "iscsi-name-isid-upper"):
        for nl in (25, 26, 27):
            add("prin-readfullstatus/%s-len=%d" % (k, nl), "h_simple", fmt="prin-readfullstatus", arg=[[k], nl])
    for nl in ((1, 2, 3, 4, 10, 11, 12) if q else range(1, 40)):
        add("prin-readfullstatus/iscsi-name-len=%d" % nl, "h_simple", fmt="prin-readfullstatus", arg=[["iscsi-name"], nl])
        add("prin-readfullstatus/iscsi-isid-name-len=%d" % nl, "h_simple", fmt="prin-readfullstatus",
            arg=[["iscsi-name-isid"], nl])
    res = [[], [[2, 0, 0, 0]], [[2, 0, 0, 1]], [[1, 0, 0, 2]], [[3, 1, 0, 1]], [[2, 0, 1, 2]], [[4, 1, 1, 2]], [[2, 0, 0, 1], [4, 0, 1, 1]],
           [[1, 0, 0, 1], [2, 0, 0, 2], [3, 0, 0, 1], [4, 0, 0, 1]]]
    if not q:
        res += [[[2, 1, 1, 4]], [[3, 0, 1, 3], [1, 1, 0, 0], [4, 0, 0, 4]]]
    for i, pages in enumerate(res):
        for t in trails:
            add("readelementstatus/%d:%s/trail=%d" % (i, pages, t), "h_simple", fmt="readelementstatus", arg=pages, trailing=t)
    for cfg in R.READCD_CONFIGS:
        for ns in ((1, 2) if q else (1, 2, 3)):
            add("readcd/%s/sectors=%d" % (cfg, ns), "h_read_cd", config=cfg, nsectors=ns)
    # a command object decoded again after the device answered differently (the decode path of SCSICommand.unmarshall):
    # the obligations of C13's h_reuse, which state exactly that
    from . import c13
    for o in c13.obligations(tier):
        if o.name.startswith("reuse/"):
            obs.append(Ob("command-" + o.name, o.module, o.func, o.params, canary=False))
    return obs


CANARIES = {"quick": 40, "thorough": None}

INFO = {
    "explanation": "Responses are built by independent layout tables with every field a solver variable and the structure "
                   "enumerated; the real unmarshall_datain runs on them (near single-path because structural bytes are "
                   "concrete); per decoded field one z3 query 'exists field values with result != value placed' must be "
                   "unsat; descriptor lists must have exactly the expected number of entries.",
    "functions": ["Inquiry.unmarshall_datain (+unmarshall_designator, unmarshall_ata_information)",
                  "ModeSense6/10.unmarshall_datain", "ReadCapacity10/16.unmarshall_datain", "GetLBAStatus.unmarshall_datain",
                  "ReportLuns.unmarshall_datain", "ReportTargetPortGroups.unmarshall_datain", "ReportPriority.unmarshall_datain",
                  "ReadElementStatus.unmarshall_datain", "PersistentReserveIn*.unmarshall_datain (4) + unmarshall_transport_id",
                  "ReadDiscInformation.unmarshall_datain", "ReadCd.unmarshall_datain", "converter.decode_bits"],
    "bounds": {"descriptors per level": "0..2 quick, 0..6 thorough", "trailing bytes": "0/5 quick, 0/1/5/13 thorough",
               "READ CD": "7 sector layouts x 1..2 (3) sectors, first 24 bytes of each part symbolic",
               "iSCSI names": "lengths 1..4,10..12 quick / 1..39 thorough (content concrete)"},
    "outside": ["responses that are not well-formed (C11 covers termination only)", "larger descriptor counts"],
    "assumptions": ["spec/responses.py (trusted transcription of the response formats)"],
    "oracle_gaps": ["ATA Information VPD: device signature and IDENTIFY data", "READ DISC INFORMATION byte 7 bit 2",
                    "READ CD sub-header parts", "SOP TransportID", "result keys the library adds beyond the standard's fields"],
}
