"""C02 -- CDB decoding is the exact inverse of CDB encoding.

As the repo's tests do it: construct the command, then call the static
Cls.marshall_cdb / Cls.unmarshall_cdb immediately (isolation between commands is
C09's subject).  All fields jointly symbolic; byte strings symbolic with the bits
the standard leaves undefined set to zero (from spec/cdb_layouts.py, so a narrowed
or widened library mask is caught rather than followed)."""
from spec import cdb_layouts as L

from . import common as K

MOD = "checks.c02"


def _popcount(m):
    return bin(m).count("1")


def _setup(ctx, cmd):
    spec = L.CDB[cmd]
    st = "spc" if "spc" in spec["sets"] else list(spec["sets"])[0]
    opcode = K.lookup_opcode(spec, st)
    a, e = K.concrete_args(spec)
    cls = K.get_class(spec)
    c = K.build(spec, opcode, a, e)
    return spec, cls, c


def h_roundtrip_dict(ctx, cmd):
    spec, cls, c = _setup(ctx, cmd)
    bits = cls._cdb_bits
    d = {}
    for name, e in bits.items():
        if len(e) == 2:
            d[name] = ctx.int("f_" + name, _popcount(e[0]))
    raw = cls.marshall_cdb(d)
    ctx.check("encoded length", len(raw) == ctx.oracle(spec["length"]))
    back = dict(cls.unmarshall_cdb(raw))  # copy: later calls must not alter an earlier result
    ctx.check("decoded key set", set(back.keys()) == set(d.keys()))
    for name in d:
        ctx.check("unmarshall(marshall(d))['%s'] == d['%s']" % (name, name), back[name] == ctx.oracle(d[name]))
    # changing one field changes only that field's decoded value
    for name in d:
        d2 = dict(d)
        d2[name] = ctx.int("g_" + name, _popcount(bits[name][0]))
        back2 = dict(cls.unmarshall_cdb(cls.marshall_cdb(d2)))
        ctx.check("decoded key set stays the class's own", set(back2.keys()) == set(d.keys()))
        for other in d:
            if other != name:
                ctx.check("changing '%s' leaves '%s' alone" % (name, other), back2[other] == ctx.oracle(back[other]))
        ctx.check("changing '%s' is seen" % name, back2[name] == ctx.oracle(d2[name]))


def h_roundtrip_bytes(ctx, cmd):
    spec, cls, c = _setup(ctx, cmd)
    n = spec["length"]
    b = ctx.bytes("cdb", n)
    dm = L.defined_mask(spec)
    if cmd in ("ATA PASS-THROUGH(12)", "ATA PASS-THROUGH(16)", "READ CD"):
        pass
    for i in range(n):
        ctx.assume((b[i] & (0xFF ^ dm[i])) == 0)
    d = cls.unmarshall_cdb(b)
    raw = cls.marshall_cdb(d)
    ctx.check("re-encoded length", len(raw) == n)
    for i in range(min(n, len(raw))):
        ctx.check("marshall(unmarshall(b))[%d] == b[%d]" % (i, i), raw[i] == ctx.oracle(b[i]))


def _ata_lba(v, n):
    """SAT-3: ATA PASS-THROUGH(12) bytes 5..7 = LBA(7:0), (15:8), (23:16); (16): bytes 7..12 = (31:24), (7:0),
    (39:32), (15:8), (47:40), (23:16); the value below is those bytes read big-endian"""
    b = lambda i: (v >> (8 * i)) & 0xFF
    order = [0, 1, 2] if n == 12 else [3, 0, 4, 1, 5, 2]
    out = 0
    for i in order:
        out = (out << 8) | b(i)
    return out


def h_roundtrip_built(ctx, cmd):
    """a CDB built by the command's constructor (all arguments symbolic) decodes, with the class's own decoder, to
    the values it was built from; the library's name for a field is found through the bits it occupies"""
    spec = L.CDB[cmd]
    st = "spc" if "spc" in spec["sets"] else list(spec["sets"])[0]
    opcode = K.lookup_opcode(spec, st)
    cls = K.get_class(spec)
    args = K.sym_args(ctx, spec)
    extra = K.extra_args(ctx, spec, args)
    if cmd.startswith("ATA"):
        ctx.assume(extra["blocksize"] >= 1)
    c = K.build(spec, opcode, args, extra)
    dec = cls.unmarshall_cdb(c.cdb)
    have = {name: K.lib_bits(e[0], e[1]) for name, e in cls._cdb_bits.items() if len(e) == 2}
    for name in args:
        want = K.spec_bits(spec["fields"][name])
        lib = [k for k, v in have.items() if v == want]
        if len(lib) != 1:
            continue    # reported by the layout obligation
        v = args[name]
        if name == "lba" and hasattr(cls, "scsi_to_ata_lba_convert"):
            # the ATA pass-through classes document their 'lba' CDB field as the ATA register order of the LBA and
            # publish the conversion; the decoded field is that documented quantity
            v = _ata_lba(v, spec["length"])
        ctx.check("built from %s=v, decodes to '%s'=v" % (name, lib[0]), dec[lib[0]] == ctx.oracle(v))
    ctx.check("decoded opcode is the command's", dec["opcode"] == ctx.oracle(spec["opcode"]))


def h_layout(ctx, cmd):
    """structural: each library field occupies exactly the bits of one field of the standard
    (service action and parameter-list-length fields included), nothing overlaps, nothing is missing"""
    spec, cls, c = _setup(ctx, cmd)
    want = {"opcode": {(0, b) for b in range(8)}}
    for name, segs in spec["fields"].items():
        want[name] = K.spec_bits(segs)
    if spec["sa"] is not None:
        want["<service action>"] = K.spec_bits(spec["sa"][0])
    if spec["data"][:2] == ("out", "plist"):
        want["<parameter list length>"] = K.spec_bits(spec["data"][2])
    have = {}
    for name, e in cls._cdb_bits.items():
        if len(e) == 2:
            have[name] = K.lib_bits(e[0], e[1])
    used = set()
    for name, bits in have.items():
        match = [k for k, v in want.items() if v == bits]
        ctx.check("library field '%s' sits exactly on a field of the standard" % name, len(match) == ctx.oracle(1),
                  "bits=%s" % sorted(bits))
        ctx.check("library field '%s' overlaps no other field" % name, not (used & bits))
        used |= bits
    for k, v in want.items():
        ctx.check("standard field %s is present in the library layout" % k, any(v == b for b in have.values()))


def obligations(tier):
    from symx.harness import Ob
    obs = []
    for cmd in L.CDB:
        obs.append(Ob("dict-roundtrip/%s" % cmd, MOD, "h_roundtrip_dict", {"cmd": cmd}))
        obs.append(Ob("bytes-roundtrip/%s" % cmd, MOD, "h_roundtrip_bytes", {"cmd": cmd}))
        obs.append(Ob("built-roundtrip/%s" % cmd, MOD, "h_roundtrip_built", {"cmd": cmd}))
        obs.append(Ob("layout/%s" % cmd, MOD, "h_layout", {"cmd": cmd}, canary=False))
    return obs


CANARIES = {"quick": 30, "thorough": None}

INFO = {
    "explanation": "For each of the 43 command classes: (a) all fields of the class jointly symbolic -> "
                   "unmarshall_cdb(marshall_cdb(d)) == d and single-field changes do not leak; (b) all CDB bytes "
                   "symbolic with bits the standard leaves undefined = 0 -> marshall_cdb(unmarshall_cdb(b)) == b; "
                   "(c) a structural comparison of every library field's bit set with the standard's; (d) every "
                   "constructor with all arguments symbolic -> unmarshall_cdb(cmd.cdb) returns the arguments (the ATA "
                   "pass-through 'lba' field after the documented scsi_to_ata_lba_convert). Each law is a "
                   "z3 unsat query over the real constructors and marshall/unmarshall code.",
    "functions": ["<43 command constructors>", "SCSICommand.marshall_cdb", "SCSICommand.unmarshall_cdb", "converter.encode_dict",
                  "converter.decode_bits", "_cdb_bits of every command class"],
    "bounds": {"values": "none (full field widths, all fields jointly)", "cdb bytes": "all 2^(defined bits) strings"},
    "outside": ["CDBs with bits set that the standard leaves reserved", "interleaving with other commands (C09)"],
    "assumptions": ["spec/cdb_layouts.py (trusted transcription of the standards' CDB tables)"],
}
