"""C12 -- data written through the library is read back intact from a conformant target.

The facade runs over the real SCSIDevice / ISCSIDevice whose stub binding hands
(cdb, dataout, datain) to the standards-only target model of spec/target_model.py.
LBAs (full width), flags, payload and the pre-state of the disk are symbolic.
Inductive step: from an arbitrary disk, one facade call must have exactly the effect
the caller asked for (checked with a fresh symbolic probe address); explicit W;R,
W;W;R and WS;R histories with independent symbolic LBAs cover every aliasing."""
from spec import cdb_layouts as L
from spec.target_model import Target

MOD = "checks.c12"
W = {"10": (32, 16), "12": (32, 32), "16": (64, 32)}


class _Wire:
    def __init__(self, target):
        self.t = target

    def sgio(self, env, call):
        from stubs import env as E
        st = self.t.handle(call.cdb, call.dataout, call.datain)
        if st == 2:
            raise E.CheckConditionError(bytearray(b"\x70\x00\x05\x00\x00\x00\x00\x0a\x00\x00\x00\x00\x20\x00\x00\x00\x00\x00"))
        return 0

    def iscsi(self, env, task):
        if not (task.lun == env.lun):
            # the task is addressed to another logical unit of the target than the one the URL names: this block
            # device never sees it (the other LU answers, here with CHECK CONDITION / LOGICAL UNIT NOT SUPPORTED)
            self.t.commands.append(("ILLEGAL", "task for LUN %r, the URL names LUN %r" % (task.lun, env.lun)))
            task.status = 2
            task.raw_sense = bytearray(b"\x70\x00\x05\x00\x00\x00\x00\x0a\x00\x00\x00\x00\x25\x00\x00\x00\x00\x00")
            return
        task.status = self.t.handle(task.cdb, task.dataout, task.datain)
        if task.status == 2:
            task.raw_sense = bytearray(b"\x70\x00\x05\x00\x00\x00\x00\x0a\x00\x00\x00\x00\x20\x00\x00\x00\x00\x00")


def _setup(ctx, transport, bs):
    from pyscsi.pyscsi.scsi import SCSI
    from stubs import env
    sd, idv = env.install()
    ident = ctx.bytes("inquiry_data", 36)
    ident[0] = 0x00  # direct-access block device
    tgt = Target(ctx, bs, ctx.int("last_lba", 64), list(ident) + [0] * 60)
    env.ENV.reset(_Wire(tgt))
    env.ENV.lun = ctx.int("lun", 16)   # the block device is this logical unit of the iSCSI target
    dev = sd.SCSIDevice("/dev/sg0", readwrite=True) if transport == "sgio" else idv.ISCSIDevice("iscsi://h/t/0", "iqn.t")
    s = SCSI(dev, bs)
    return s, tgt


def _flags(ctx, kind, tag):
    if kind == "read":
        return {"rdprotect": ctx.int(tag + "rdprotect", 3), "dpo": ctx.int(tag + "dpo", 1), "fua": ctx.int(tag + "fua", 1),
                "rarc": ctx.int(tag + "rarc", 1), "group": ctx.int(tag + "group", 5)}
    if kind == "write":
        return {"wrprotect": ctx.int(tag + "wrprotect", 3), "dpo": ctx.int(tag + "dpo", 1), "fua": ctx.int(tag + "fua", 1),
                "group": ctx.int(tag + "group", 5)}
    return {"wrprotect": ctx.int(tag + "wrprotect", 3), "anchor": ctx.int(tag + "anchor", 1), "unmap": ctx.int(tag + "unmap", 1),
            "group": ctx.int(tag + "group", 5)}


def _write(ctx, s, form, bs, maxtl, tag):
    lb, tb = W[form]
    lba = ctx.int(tag + "lba", lb)
    tl = ctx.int(tag + "tl", 2, hi=maxtl)
    tl = ctx.concrete(tl)
    data = ctx.bytes(tag + "data", bs * tl)
    getattr(s, "write" + form)(lba, tl, data, **_flags(ctx, "write", tag))
    return lba, tl, data


def _read(ctx, s, form, bs, maxtl, tag):
    lb, tb = W[form]
    lba = ctx.int(tag + "lba", lb)
    tl = ctx.concrete(ctx.int(tag + "tl", 2, hi=maxtl))
    c = getattr(s, "read" + form)(lba, tl, **_flags(ctx, "read", tag))
    return lba, tl, c.datain


def _expect_block(ctx, label, got, want):
    ok = len(got) == len(want)
    ctx.check(label + ": block length", ok)
    if ok:
        acc = True
        for x, y in zip(list(got), list(want)):
            e = (x == y)
            acc = e if acc is True else (acc & e if e is not True else acc)
            if acc is False:
                break
        ctx.check(label, ctx.oracle(acc) if not isinstance(acc, bool) else acc)


def h_step_write(ctx, transport, form, bs):
    """from an arbitrary disk, WRITE stores exactly the caller's blocks at lba..lba+tl-1 and nothing else"""
    s, tgt = _setup(ctx, transport, bs)
    lba, tl, data = _write(ctx, s, form, bs, 3, "w_")
    probe = ctx.int("probe", 64)
    before = tgt.disk._lookup(tgt.disk.initial, probe) if False else None
    got = tgt.disk.read(probe)
    hit = False
    for i in range(tl):
        if probe == lba + i:
            _expect_block(ctx, "block %d of the write is stored at lba+%d" % (i, i), got, data[i * bs:(i + 1) * bs])
            hit = True
            break
    if not hit:
        ctx.check("addresses outside lba..lba+tl-1 keep their previous content", tgt.disk._lookup(tgt.disk.writes, probe) is None)
    ctx.check("exactly one command reached the target after attach", len(tgt.commands) == ctx.oracle(2))


def h_step_read(ctx, transport, form, bs):
    """from an arbitrary disk, READ returns block by block what the disk holds at lba+i"""
    s, tgt = _setup(ctx, transport, bs)
    lba, tl, datain = _read(ctx, s, form, bs, 3, "r_")
    ctx.check("returned buffer is tl blocks long", len(datain) == ctx.oracle(bs * tl))
    for i in range(tl):
        _expect_block(ctx, "block %d is the disk content at lba+%d" % (i, i), datain[i * bs:(i + 1) * bs], tgt.disk.read(lba + i))
    ctx.check("a read changes nothing on the disk", len(tgt.disk.writes) == 0)


def h_step_writesame(ctx, transport, form, bs):
    s, tgt = _setup(ctx, transport, bs)
    lb, tb = W[form]
    lba = ctx.int("lba", lb)
    nb = ctx.concrete(ctx.int("nb", 2, lo=1, hi=3))
    blk = ctx.bytes("block", bs)
    kw = _flags(ctx, "ws", "")
    getattr(s, "writesame" + form)(lba, nb, blk, **kw)
    probe = ctx.int("probe", 64)
    got = tgt.disk.read(probe)
    hit = False
    for i in range(nb):
        if probe == lba + i:
            _expect_block(ctx, "every block lba..lba+nb-1 holds the pattern", got, blk)
            hit = True
            break
    if not hit:
        ctx.check("addresses outside the range keep their previous content", tgt.disk._lookup(tgt.disk.writes, probe) is None)


def h_geometry(ctx, transport, bs):
    s, tgt = _setup(ctx, transport, bs)
    tgt.rc16_tail = list(ctx.bytes("rc16_bytes_12_15", 4))
    c = s.readcapacity16()
    ctx.check("READ CAPACITY(16) reports the physical-block exponent", c.result["lbppbe"] == ctx.oracle(tgt.rc16_tail[1] & 0x0F))
    ctx.check("the facade's block size is still the one the caller configured", s.blocksize == ctx.oracle(bs))
    r = s.read10(ctx.int("after_lba", 32), 1)
    ctx.check("a read after READ CAPACITY(16) still transfers whole logical blocks", len(r.datain) == ctx.oracle(bs))
    ctx.check("READ CAPACITY(16) reports the target's last LBA", c.result["returned_lba"] == ctx.oracle(tgt.last_lba))
    ctx.check("READ CAPACITY(16) reports the block length", c.result["block_length"] == ctx.oracle(bs))
    c = s.readcapacity10()
    small = tgt.last_lba <= 0xFFFFFFFE
    if small:
        ctx.check("READ CAPACITY(10) reports the last LBA", c.result["returned_lba"] == ctx.oracle(tgt.last_lba))
    else:
        ctx.check("READ CAPACITY(10) saturates at FFFFFFFFh", c.result["returned_lba"] == ctx.oracle(0xFFFFFFFF))
    ctx.check("READ CAPACITY(10) reports the block length", c.result["block_length"] == ctx.oracle(bs))
    i = s.inquiry()
    idb = tgt.identity
    ctx.check("INQUIRY reports the target's vendor identification", list(i.result["t10_vendor_identification"]) == idb[8:16]
              if not ctx.symbolic else _eq(i.result["t10_vendor_identification"], idb[8:16]))
    ctx.check("INQUIRY reports the product identification", _eq(i.result["product_identification"], idb[16:32]))
    ctx.check("INQUIRY reports the product revision", _eq(i.result["product_revision_level"], idb[32:36]))
    ctx.check("INQUIRY reports the device type", i.result["peripheral_device_type"] == ctx.oracle(idb[0] & 0x1F))
    s.synchronizecache10(ctx.int("sc_lba", 32), ctx.int("sc_n", 16))
    s.synchronizecache16(ctx.int("sc16_lba", 64), ctx.int("sc16_n", 32))
    ctx.check("no command was rejected by the target", all(n != "ILLEGAL" for n, _ in tgt.commands))
    ctx.check("SYNCHRONIZE CACHE does not alter the disk", len(tgt.disk.writes) == 0)


def _eq(a, b):
    a, b = list(a), list(b)
    if len(a) != len(b):
        return False
    acc = True
    for x, y in zip(a, b):
        e = (x == y)
        if e is False:
            return False
        if e is not True:
            acc = e if acc is True else acc & e
    return acc


def h_history(ctx, transport, ops, bs):
    """explicit histories with independent symbolic LBAs: the final read returns, for each block, the data of the
    last write covering it (or the initial content)"""
    s, tgt = _setup(ctx, transport, bs)
    log = []  # abstract history kept by the harness: (lba, nblocks, blocks)
    for k, (kind, form) in enumerate(ops[:-1]):
        if kind == "W":
            lba, tl, data = _write(ctx, s, form, bs, 2, "op%d_" % k)
            log.append((lba, tl, [data[i * bs:(i + 1) * bs] for i in range(tl)]))
        elif kind == "WS":
            lb, tb = W[form]
            lba = ctx.int("op%d_lba" % k, lb)
            nb = ctx.concrete(ctx.int("op%d_nb" % k, 2, lo=1, hi=2))
            blk = ctx.bytes("op%d_block" % k, bs)
            getattr(s, "writesame" + form)(lba, nb, blk)
            log.append((lba, nb, [blk] * nb))
        elif kind == "S":
            s.synchronizecache10(0, 0)
    kind, form = ops[-1]
    lba, tl, datain = _read(ctx, s, form, bs, 2, "final_")
    for i in range(tl):
        a = lba + i
        want = None
        for wl, n, blocks in reversed(log):
            for j in range(n):
                if a == wl + j:
                    want = blocks[j]
                    break
            if want is not None:
                break
        if want is None:
            want = tgt.disk.read(a)
            ctx.check("block %d was never written: initial content" % i, tgt.disk._lookup(tgt.disk.writes, a) is None)
        _expect_block(ctx, "final read, block %d: data last written to that LBA" % i, datain[i * bs:(i + 1) * bs], want)
    ctx.check("no command was rejected by the target", all(n != "ILLEGAL" for n, _ in tgt.commands))


def h_payload(ctx, transport, form, kind):
    """the write data may be bytes, a bytearray or a memoryview slice of a larger buffer: what is read back is exactly
    that data, on either transport"""
    bs = 4
    s, tgt = _setup(ctx, transport, bs)
    big = bytearray(range(16, 80))
    off = ctx.concrete(ctx.int("offset", 3, lo=0, hi=7)) * 4
    want = bytes(big[off:off + 2 * bs])
    data = {"bytes": want, "bytearray": bytearray(want), "memoryview": memoryview(big)[off:off + 2 * bs]}[kind]
    lb, tb = W[form]
    lba = ctx.int("lba", lb)
    getattr(s, "write" + form)(lba, 2, data)
    r = getattr(s, "read" + form)(lba, 2)
    ctx.check("read-back of a %s payload" % kind, _conc(r.datain) == want)
    ctx.check("no command was rejected by the target", all(n != "ILLEGAL" for n, _ in tgt.commands))


def _conc(b):
    return bytes(b.concrete()) if hasattr(b, "concrete") else bytes(b)


def h_batch(ctx, transport, forms, bs):
    """commands prepared first and issued afterwards (a queued batch of WRITEs, then a prepared READ): every command
    still carries its own address, length and data when it reaches the target"""
    import importlib
    s, tgt = _setup(ctx, transport, bs)
    cmds, log = [], []
    for k, form in enumerate(forms[:-1]):
        lb, tb = W[form]
        lba = ctx.int("op%d_lba" % k, lb)
        tl = ctx.concrete(ctx.int("op%d_tl" % k, 2, hi=2))
        data = ctx.bytes("op%d_data" % k, bs * tl)
        cls = getattr(importlib.import_module("pyscsi.pyscsi.scsi_cdb_write%s" % form), "Write%s" % form)
        cmds.append(cls(getattr(s.device.opcodes, "WRITE_%s" % form), bs, lba, tl, data))
        log.append((lba, tl, [data[i * bs:(i + 1) * bs] for i in range(tl)]))
    form = forms[-1]
    lb, tb = W[form]
    rlba = ctx.int("final_lba", lb)
    rtl = ctx.concrete(ctx.int("final_tl", 2, hi=2))
    rcls = getattr(importlib.import_module("pyscsi.pyscsi.scsi_cdb_read%s" % form), "Read%s" % form)
    rd = rcls(getattr(s.device.opcodes, "READ_%s" % form), bs, rlba, rtl)
    for c in cmds:
        s.execute(c)
    s.execute(rd)
    datain = rd.datain
    ctx.check("returned buffer is tl blocks long", len(datain) == ctx.oracle(bs * rtl))
    for i in range(rtl):
        a = rlba + i
        want = None
        for wl, n, blocks in reversed(log):
            for j in range(n):
                if a == wl + j:
                    want = blocks[j]
                    break
            if want is not None:
                break
        if want is None:
            want = tgt.disk.read(a)
            ctx.check("block %d was never written: initial content" % i, tgt.disk._lookup(tgt.disk.writes, a) is None)
        _expect_block(ctx, "prepared read, block %d: data last written to that LBA" % i, datain[i * bs:(i + 1) * bs], want)
    ctx.check("no command was rejected by the target", all(n != "ILLEGAL" for n, _ in tgt.commands))


def obligations(tier):
    from symx.harness import Ob
    q = tier == "quick"
    obs = []
    for tr in ("sgio", "iscsi"):
        for form in ("10", "12", "16"):
            for bs in ((2,) if q else (1, 2, 4)):
                obs.append(Ob("step/write%s/%s/bs=%d" % (form, tr, bs), MOD, "h_step_write", {"transport": tr, "form": form, "bs": bs}, split=True))
                obs.append(Ob("step/read%s/%s/bs=%d" % (form, tr, bs), MOD, "h_step_read", {"transport": tr, "form": form, "bs": bs}, split=True))
        for form in ("10", "16"):
            obs.append(Ob("step/writesame%s/%s" % (form, tr), MOD, "h_step_writesame", {"transport": tr, "form": form, "bs": 2}, split=True))
        obs.append(Ob("geometry+identity/%s" % tr, MOD, "h_geometry", {"transport": tr, "bs": 512}))
        hist = [[("W", "10"), ("R", "10")], [("W", "16"), ("R", "16")], [("W", "12"), ("R", "10")], [("W", "10"), ("R", "16")],
                [("WS", "16"), ("R", "12")], [("W", "16"), ("W", "10"), ("R", "16")], [("W", "10"), ("S", "10"), ("R", "10")]]
        if not q:
            hist += [[("W", "12"), ("WS", "10"), ("R", "12")], [("WS", "10"), ("W", "16"), ("R", "10")],
                     [("W", "16"), ("W", "16"), ("W", "12"), ("R", "16")]]
        for kind in ("bytes", "bytearray", "memoryview"):
            obs.append(Ob("payload/%s/%s" % (tr, kind), MOD, "h_payload", {"transport": tr, "form": "10", "kind": kind}, canary=False))
        for forms in ([["16", "16", "16"], ["10", "10", "10"]] + ([] if q else [["12", "16", "12"], ["16", "10", "16"]])):
            obs.append(Ob("batch/%s/%s" % ("-".join(forms), tr), MOD, "h_batch", {"transport": tr, "forms": forms, "bs": 2}, split=True))
        for h in hist:
            obs.append(Ob("history/%s/%s" % ("-".join(k + f for k, f in h), tr), MOD, "h_history",
                          {"transport": tr, "ops": h, "bs": 2}, split=True))
    return obs


CANARIES = {"quick": 16, "thorough": 40}

INFO = {
    "explanation": "The facade drives the real device classes whose stub bindings deliver (cdb, dataout, datain) to a target model "
                   "that decodes the CDB with the standards-only decoder and stores blocks in an arbitrary-function disk; LBAs "
                   "at full width (also above 2^32 for the 16-byte forms), flags, payload and disk pre-state are solver "
                   "variables; z3 decides the inductive step (post-state == the caller's abstract operation, via a symbolic "
                   "probe address) and explicit W;R / W;W;R / WS;R histories over every aliasing of the LBAs; also batches of "
                   "command objects prepared first and issued afterwards through SCSI.execute; the iSCSI target answers only "
                   "for the logical unit the URL names (LUN symbolic); write data as bytes / bytearray / memoryview slice.",
    "functions": ["SCSI.read10/12/16, write10/12/16, writesame10/16, synchronizecache10/16, readcapacity10/16, inquiry",
                  "Read*/Write*/WriteSame*/SynchronizeCache*/ReadCapacity*/Inquiry constructors", "SCSIDevice.execute",
                  "ISCSIDevice.execute", "ReadCapacity10/16.unmarshall_datain", "Inquiry.unmarshall_datain"],
    "bounds": {"block size": "2 bytes quick; 1, 2, 4 thorough", "transfer length": "<= 3 blocks (step) / <= 2 (histories)",
               "histories": "2..3 operations quick, ..4 thorough", "LBA": "full field width"},
    "outside": ["protection information; FUA/DPO/group semantics (the flags are checked to reach the CDB in C01)",
                "WRITE SAME with NUMBER OF BLOCKS = 0 (to end of medium) and NDOB", "caches, unaligned transfers"],
    "assumptions": ["spec/target_model.py is a faithful SBC block target", "stub bindings"],
}
