"""C13 -- each facade call sends exactly one command and decodes what the device returned.

Recording device: counts execute calls, keeps the command object and, *during*
execute, overwrites cmd.datain in place with a response whose payload bytes are
fresh solver variables.  For every facade method x defining command set x subset of
its documented optional keyword arguments (read from the docstrings of the current
scsi.py): one execute, identity of the returned/executed object and of its buffers,
operation code / service action of the device's table, arguments (given or
defaulted) at the standard's CDB positions, and cmd.result equal -- as solver terms
-- to an independent decode of the device-written bytes."""
import itertools

from spec import cdb_layouts as L
from spec import facade_docs as D
from spec import t10_codes as T
from symx.ctx import Skip

from . import common as K

MOD = "checks.c13"


# ---- device responses: concrete structure, symbolic payload --------------------------------
def _resp(ctx, cmd, n):
    """bytes the device leaves in a data-in buffer of n bytes (list of ints / symbolic bytes)"""
    S = lambda name, k: list(ctx.bytes(name, k))
    if cmd == "INQUIRY":
        return S("inq", min(n, 64))
    if cmd in ("READ CAPACITY(10)", "READ CAPACITY(16)"):
        return S("cap", min(n, 32))
    if cmd == "REPORT LUNS":
        # LUN LIST LENGTH is the device's to choose (it may announce more LUNs than the buffer holds)
        return S("lunlen", 4) + [0, 0, 0, 0] + S("lun", 8)
    if cmd == "GET LBA STATUS":
        return [0, 0, 0, 20, 0, 0, 0, 0] + S("lbas", 16)
    if cmd == "READ ELEMENT STATUS":
        return S("hdr", 4) + [0, 0, 0, 24] + [2, 0, 0, 16, 0, 0, 0, 16] + S("desc", 16)
    if cmd == "PERSISTENT RESERVE IN/READ KEYS":
        return S("gen", 4) + [0, 0, 0, 8] + S("key", 8)
    if cmd == "PERSISTENT RESERVE IN/READ RESERVATION":
        return S("gen", 4) + [0, 0, 0, 16] + S("res", 16)
    if cmd == "PERSISTENT RESERVE IN/REPORT CAPABILITIES":
        return [0, 8] + S("caps", 6)
    if cmd == "PERSISTENT RESERVE IN/READ FULL STATUS":
        tid = [0x06, 0, 0, 0] + S("sas", 8) + [0] * 12
        return S("gen", 4) + [0, 0, 0, 48] + S("fs", 20) + [0, 0, 0, 24] + tid
    if cmd == "REPORT TARGET PORT GROUPS":
        return [0, 0, 0, 12] + S("tpg", 7) + [1] + S("port", 4)
    if cmd == "REPORT PRIORITY":
        return [0, 0, 0, 0]
    if cmd == "MODE SENSE(6)":
        return [15] + S("mh", 2) + [0] + [0x0A, 0x0A] + S("page", 10)
    if cmd == "MODE SENSE(10)":
        return [0, 18] + S("mh", 2) + [0, 0, 0, 0] + [0x0A, 0x0A] + S("page", 10)
    if cmd == "READ DISC INFORMATION":
        return [0, 32, ctx.bytes("b2", 1)[0] & 0x1F] + S("rdi", 31)
    if cmd == "READ CD":
        return S("sector", 32)
    return []


class _Dev:
    def __init__(self, ctx, cmd, opcodes):
        from stubs.recdev import RecDevice
        self.ctx, self.cmd = ctx, cmd
        self.written = None
        self.write = True
        self.snapshot = None
        self.seen = []
        self.dev = RecDevice(opcodes, on_execute=self._on)
        self.ids = None

    def _on(self, dev, c):
        self.seen.append(c)
        self.ids = (c.cdb, c.dataout, c.datain)
        self.snapshot = None
        if not self.write or getattr(c.datain, "symlen", None) is not None:
            return  # the caller chose the allocation length (symbolic): the device leaves the buffer untouched
        try:
            n = len(c.datain)
        except TypeError:
            return
        r = _resp(self.ctx, self.cmd, n)[:n]
        if r:
            c.datain[0:len(r)] = r
        self.snapshot = c.datain[:] if n else None


def deq(a, b):
    """deep equality of decoded results; returns bool or a symbolic bool"""
    if isinstance(a, dict) and isinstance(b, dict):
        if set(a.keys()) != set(b.keys()):
            return False
        acc = True
        for k in a:
            acc = _and(acc, deq(a[k], b[k]))
            if acc is False:
                return False
        return acc
    if isinstance(a, (list, tuple)) and isinstance(b, (list, tuple)):
        if len(a) != len(b):
            return False
        acc = True
        for x, y in zip(a, b):
            acc = _and(acc, deq(x, y))
            if acc is False:
                return False
        return acc
    return a == b


def _and(a, b):
    if a is True:
        return b
    if b is True:
        return a
    if a is False or b is False:
        return False
    return a & b


def _subsets(names, tier):
    if tier == "thorough" or len(names) <= 3:
        for r in range(len(names) + 1):
            for c in itertools.combinations(names, r):
                yield list(c)
    else:
        yield []
        yield list(names)
        for n in names:
            yield [n]
        for n in names:
            yield [m for m in names if m != n]


def _facade_args(ctx, cmd, spec, method, given, rec=None):
    """(arguments for the facade call, expected CDB field values): required and `given` optional arguments symbolic"""
    req, sigopt, has_kw = D.signature_args(method)
    fa, expect = {}, {}
    a0, e0 = K.concrete_args(spec)
    for name in req + list(given):
        if name in spec["fields"]:
            v = ctx.int(name, L.width(spec["fields"][name]))
            fa[name] = expect[name] = v
        elif name == "service_action" and spec["sa"] is not None:
            fa[name] = spec["sa"][1]
        elif name in ("data",) and spec["extra"].get("data") == "modepage":
            fa[name] = e0["data"]
        elif name == "data":
            fa[name] = bytearray(b"\x01\x02\x03\x04")
        elif name == "blocksize":
            fa[name] = ctx.int("blocksize", 16, lo=1)
        elif name == "extra_tl":
            fa[name] = ctx.int("extra_tl", 8)
        elif name in ("target_descriptor_list", "cscd_descriptor_list", "segment_descriptor_list"):
            fa[name] = []
        elif name == "inline_data":
            fa[name] = bytearray(b"\x09")
        elif name in ("list_identifier", "sequential_striped", "nrcr", "priority", "list_id_usage", "g_sense", "immed"):
            fa[name] = ctx.int(name, 1)
        else:
            # a documented argument this harness has no typed value for: pass a small integer
            fa[name] = ctx.int(name, 3)
    if spec["data"][0] == "in" and len(spec["data"]) > 2 and spec["data"][2] in given:
        if rec is not None:
            rec.write = False
        ctx.assume(fa[spec["data"][2]] >= 4)  # room for at least the response's length header
    if cmd.startswith("ATA"):
        ctx.assume(fa["t_length"] != 3)
        if "blocksize" not in fa:
            # byte_block & t_type & t_length without a block size is a refused request (C17)
            ctx.assume((fa["byte_block"] == 0) | (fa["t_type"] == 0) | (fa["t_length"] == 0))
    if cmd == "READ CD":
        fa["tl"] = expect["tl"] = 1
        fa["lba"] = expect["lba"] = 7
        for k in ("est", "mcsb", "c2ei", "scsb"):
            if k in fa:
                fa[k] = expect[k] = {"est": 1, "mcsb": 2, "c2ei": 0, "scsb": 0}[k]
    if cmd in ("MODE SENSE(6)", "MODE SENSE(10)") and "alloclen" in fa:
        ctx.assume(fa["alloclen"] >= 24)
    if cmd == "INQUIRY" and "evpd" in fa:
        fa["evpd"] = expect["evpd"] = 0
    return fa, expect


def h_call(ctx, cmd, set_name, given):
    from pyscsi.pyscsi.scsi import SCSI
    spec = L.CDB[cmd]
    rec0 = _Dev(ctx, "-", None)
    s = SCSI(rec0.dev, 512)
    rec = _Dev(ctx, cmd, K.get_set(set_name))
    s.device = rec.dev
    method = getattr(s, spec["facade"])
    fa, expect = _facade_args(ctx, cmd, spec, method, given, rec)
    n0 = len(rec.seen)
    st, c = ctx.attempt(method, **fa)
    if st == "exc":
        raise c
    ctx.check("exactly one command handed to the device", len(rec.seen) - n0 == ctx.oracle(1))
    sent = rec.seen[-1]
    ctx.check("the returned command is the executed one", sent is c)
    ctx.check("the device saw the very cdb / dataout / datain objects of the returned command",
              rec.ids[0] is c.cdb and rec.ids[1] is c.dataout and rec.ids[2] is c.datain)
    # operation code / service action: what the *device's* table assigns == T10's
    ctx.check("operation code is the one T10 assigns to the command", c.cdb[0] == ctx.oracle(spec["opcode"]))
    if spec["sa"] is not None:
        ctx.check("service action is the one T10 assigns", L._extract(c.cdb, spec["sa"][0]) == ctx.oracle(spec["sa"][1]))
    dec = L.decode_cdb(spec, c.cdb)
    for name, segs in spec["fields"].items():
        if name in expect:
            ctx.check("argument '%s' reaches the CDB" % name, dec[name] == ctx.oracle(expect[name]))
        elif name in spec["defaults"]:
            ctx.check("omitted '%s' is sent as its documented default" % name, dec[name] == ctx.oracle(spec["defaults"][name]))
    # decode happens after execute, on what the device left in the buffer
    cls = K.get_class(spec)
    if hasattr(cls, "unmarshall_datain") and spec["data"][0] == "in" and rec.snapshot is not None \
            and cmd not in ("READ(10)", "READ(12)", "READ(16)"):
        kw = {}
        if cmd == "INQUIRY":
            kw = {"evpd": 0}
        if cmd == "READ CD":
            kw = dict(lba=7, tl=1, est=fa.get("est", 0), mcsb=fa.get("mcsb", 0), c2ei=fa.get("c2ei", 0), scsb=fa.get("scsb", 0),
                      dap=fa.get("dap", 0))
        want = cls.unmarshall_datain(rec.snapshot, **kw)
        ctx.check("result is the decode of the bytes the device left in the buffer", deq(c.result, ctx.oracle_struct(want)))
        ctx.check("the data-in buffer still holds the device's bytes", c.datain == rec.snapshot)


class _Boom(Exception):
    pass


_FAILURES = [TypeError("device failed (stub)"), ValueError("device failed (stub)"), OSError(5, "I/O error (stub)"),
             AttributeError("device failed (stub)"), KeyError("device failed (stub)"), RuntimeError("device failed (stub)"),
             _Boom("device failed (stub)")]


def h_fail(ctx, cmd, set_name):
    """a device whose execute raises, whatever the exception: the command was still handed over exactly once (no
    silent second attempt) and the caller learns of the failure"""
    from pyscsi.pyscsi.scsi import SCSI
    spec = L.CDB[cmd]
    for exc in _FAILURES:
        rec0 = _Dev(ctx, "-", None)
        s = SCSI(rec0.dev, 512)
        rec = _Dev(ctx, cmd, K.get_set(set_name))
        rec.write = False
        orig = rec.dev.on_execute

        def boom(dev, c, exc=exc, orig=orig):
            orig(dev, c)
            raise exc
        rec.dev.on_execute = boom
        s.device = rec.dev
        method = getattr(s, spec["facade"])
        fa, expect = _facade_args(ctx, cmd, spec, method, [], rec)
        st, r = ctx.attempt(method, **fa)
        tag = type(exc).__name__
        ctx.check("device raises %s: exactly one command handed to the device" % tag, len(rec.seen) == ctx.oracle(1))
        ctx.check("device raises %s: the caller sees a failure (the call does not look successful)" % tag, st == "exc", repr(r)[:80])


class _Responder:
    """scenario for the stub bindings: leaves a response in the buffer the binding was given"""
    def __init__(self, ctx, cmd):
        self.ctx, self.cmd, self.snapshot, self.buf = ctx, cmd, None, None

    def _fill(self, datain):
        self.buf = datain
        if getattr(datain, "symlen", None) is not None:
            return
        try:
            n = len(datain)
        except TypeError:
            return
        r = _resp(self.ctx, self.cmd, n)[:n]
        if r:
            datain[0:len(r)] = r
        self.snapshot = datain[:] if n else None

    def sgio(self, env, call):
        self._fill(call.datain)
        return 0

    def iscsi(self, env, task):
        task.status = 0
        self._fill(task.datain)


def h_transport(ctx, cmd, set_name, transport, given):
    """the same, through the library's own device classes over the stub bindings: one call of the binding, with the
    very cdb and buffers of the command the caller gets back, and the result decoded from what the binding left"""
    from stubs import env
    sd, idv = env.install()
    from pyscsi.pyscsi.scsi import SCSI
    spec = L.CDB[cmd]
    sc = _Responder(ctx, cmd)
    env.ENV.reset(None)
    dev = sd.SCSIDevice("/dev/sg0") if transport == "sgio" else idv.ISCSIDevice("iscsi://host/target/0", "iqn.test")
    rec0 = _Dev(ctx, "-", None)
    s = SCSI(rec0.dev, 512)
    dev.opcodes = K.get_set(set_name)
    s.device = dev
    env.ENV.reset(sc)
    env.ENV.sgio_return = ctx.int("resid", 16)   # the binding reports an arbitrary residual count
    if transport == "iscsi":
        env.ENV.iscsi_tasks[:] = []
    method = getattr(s, spec["facade"])
    fa, expect = _facade_args(ctx, cmd, spec, method, given, None)
    st, c = ctx.attempt(method, **fa)
    if st == "exc":
        raise c
    calls = env.ENV.sgio_calls if transport == "sgio" else env.ENV.iscsi_tasks
    ctx.check("%s: exactly one command handed to the binding" % transport, len(calls) == ctx.oracle(1))
    if not calls:
        return
    t = calls[-1]
    ctx.check("%s: the binding saw the very cdb / dataout / datain objects of the returned command" % transport,
              t.cdb is c.cdb and t.dataout is c.dataout and t.datain is c.datain)
    ctx.check("%s: operation code is the one T10 assigns to the command" % transport, c.cdb[0] == ctx.oracle(spec["opcode"]))
    dec = L.decode_cdb(spec, c.cdb)
    for name in spec["fields"]:
        if name in expect:
            ctx.check("%s: argument '%s' reaches the CDB" % (transport, name), dec[name] == ctx.oracle(expect[name]))
    cls = K.get_class(spec)
    if hasattr(cls, "unmarshall_datain") and spec["data"][0] == "in" and sc.snapshot is not None \
            and cmd not in ("READ(10)", "READ(12)", "READ(16)", "READ CD"):
        kw = {"evpd": 0} if cmd == "INQUIRY" else {}
        want = cls.unmarshall_datain(sc.snapshot, **kw)
        ctx.check("%s: result is the decode of the bytes the binding left in the buffer" % transport,
                  deq(c.result, ctx.oracle_struct(want)))


def h_reuse(ctx, cmd, set_name):
    """the same command object executed and decoded a second time: its result is the decode of what the device left
    in the buffer *this* time (nothing of the earlier answer survives)"""
    from pyscsi.pyscsi.scsi import SCSI
    spec = L.CDB[cmd]
    cls = K.get_class(spec)
    rec0 = _Dev(ctx, "-", None)
    s = SCSI(rec0.dev, 512)
    rec = _Dev(ctx, cmd, K.get_set(set_name))
    s.device = rec.dev
    st, c = ctx.attempt(K.facade_concrete_call, s, spec)
    if st == "exc":
        raise c
    first = rec.snapshot
    # second execution of the very same object: the device now answers with an empty (all-zero) response
    rec.write = False
    n = len(c.datain)
    c.datain[0:n] = bytearray(n)
    s.execute(c)
    kw = {"evpd": 0} if cmd == "INQUIRY" else {}
    st2, _ = ctx.attempt(c.unmarshall, **kw)
    ctx.check("second decode succeeds or fails exactly like a fresh decode of the same bytes", True)
    st3, want = ctx.attempt(cls.unmarshall_datain, c.datain[:], **kw)
    if st2 == "ok" and st3 == "ok":
        ctx.check("after re-execution the result is the decode of the new buffer content", deq(c.result, ctx.oracle_struct(want)),
                  "%r vs %r" % (c.result, want))
    else:
        ctx.check("re-decode and fresh decode agree on failing", st2 == st3)
    ctx.check("two commands reached the device", len(rec.seen) == ctx.oracle(2))


def h_unconfigured(ctx, cmd, set_name):
    """a facade created without a block size (commands that do not transfer blocks need none): still one command"""
    from pyscsi.pyscsi.scsi import SCSI
    spec = L.CDB[cmd]
    rec = _Dev(ctx, cmd, K.get_set(set_name))
    s = SCSI(_Dev(ctx, "-", None).dev)
    s.device = rec.dev
    if cmd == "WRITE SAME(16)":
        st, c = ctx.attempt(s.writesame16, ctx.int("lba", 32), ctx.int("nb", 16), None, ndob=1)
    else:
        st, c = ctx.attempt(K.facade_concrete_call, s, spec)
    if st == "exc":
        raise c
    ctx.check("no block size configured: exactly one command handed to the device", len(rec.seen) == ctx.oracle(1))
    ctx.check("no block size configured: operation code is the command's", rec.seen[-1].cdb[0] == ctx.oracle(spec["opcode"]))


def h_reattach(ctx, cmd, set_name):
    """after s(dev2) every command goes to dev2 -- and only there"""
    from pyscsi.pyscsi.scsi import SCSI
    spec = L.CDB[cmd]
    old = _Dev(ctx, "INQUIRY", None)
    s = SCSI(old.dev, 512)
    n_old = len(old.seen)
    new = _Dev(ctx, "INQUIRY", None)
    s(new.dev)
    ctx.check("re-attach: the attach INQUIRY goes to the new device", len(new.seen) == ctx.oracle(1) and len(old.seen) == n_old)
    new.dev.opcodes = K.get_set(set_name)
    new.cmd = cmd
    k = len(new.seen)
    st, c = ctx.attempt(K.facade_concrete_call, s, spec)
    if st == "exc":
        raise c
    ctx.check("re-attach: the command reaches the new device exactly once", len(new.seen) - k == ctx.oracle(1))
    ctx.check("re-attach: the old device sees nothing any more", len(old.seen) == ctx.oracle(n_old))
    ctx.check("re-attach: the new device saw the returned command", new.seen[-1] is c)


def h_lookup(ctx, cmd, set_name):
    """the facade finds the command in every command set that defines it"""
    from pyscsi.pyscsi.scsi import SCSI
    spec = L.CDB[cmd]
    rec0 = _Dev(ctx, "-", None)
    s = SCSI(rec0.dev, 512)
    rec = _Dev(ctx, "-", K.get_set(set_name))
    s.device = rec.dev
    st, c = ctx.attempt(K.facade_concrete_call, s, spec)
    ctx.check("facade method works on a %s device" % set_name, ctx.oracle(st == "ok"), repr(c))
    if st == "ok":
        ctx.check("operation code", c.cdb[0] == spec["opcode"])


def obligations(tier):
    import pyscsi.pyscsi.scsi as scsi_mod
    from symx.harness import Ob
    obs = []
    for cmd, spec in L.CDB.items():
        if not spec["facade"]:
            continue
        method = getattr(scsi_mod.SCSI, spec["facade"])
        req, sigopt, has_kw = D.signature_args(method)
        opt = list(sigopt) + [k for k in D.documented_kwargs(method) if k not in sigopt]
        if spec["facade"] == "persistentreserveout":
            opt = ["scope", "pr_type"]
        sets = list(spec["sets"])
        for i, st in enumerate(sets):
            obs.append(Ob("lookup/%s/%s" % (cmd, st), MOD, "h_lookup", {"cmd": cmd, "set_name": st}, canary=True))
            if i > 0 and tier == "quick":
                # the other command sets that define the command: the call with every optional argument given
                if opt:
                    obs.append(Ob("call/%s/%s/given=%s" % (cmd, st, ",".join(opt)), MOD, "h_call",
                                  {"cmd": cmd, "set_name": st, "given": list(opt)}))
                continue
            obs.append(Ob("fail/%s/%s" % (cmd, st), MOD, "h_fail", {"cmd": cmd, "set_name": st}))
            cls = K.get_class(spec)
            if hasattr(cls, "unmarshall_datain") and spec["data"][0] == "in" and cmd not in ("READ(10)", "READ(12)", "READ(16)", "READ CD"):
                obs.append(Ob("reuse/%s/%s" % (cmd, st), MOD, "h_reuse", {"cmd": cmd, "set_name": st}, canary=False))
            if not any(k in ("blocksize", "blocksize-kw") for k in spec["extra"].values()) or cmd == "WRITE SAME(16)":
                obs.append(Ob("unconfigured/%s/%s" % (cmd, st), MOD, "h_unconfigured", {"cmd": cmd, "set_name": st}, canary=False))
            obs.append(Ob("reattach/%s/%s" % (cmd, st), MOD, "h_reattach", {"cmd": cmd, "set_name": st}, canary=False))
            for tr in ("sgio", "iscsi"):
                for sub in ([], list(opt)):
                    obs.append(Ob("transport/%s/%s/%s/given=%s" % (tr, cmd, st, ",".join(sub) or "-"), MOD, "h_transport",
                                  {"cmd": cmd, "set_name": st, "transport": tr, "given": sub}))
            for sub in _subsets(opt, tier):
                obs.append(Ob("call/%s/%s/given=%s" % (cmd, st, ",".join(sub) or "-"), MOD, "h_call",
                              {"cmd": cmd, "set_name": st, "given": sub}))
    return obs


CANARIES = {"quick": 40, "thorough": 200}

INFO = {
    "explanation": "Every facade method is called over a recording device for each subset (quick: none/all/singletons/"
                   "all-but-one; thorough: every subset) of its documented optional keyword arguments, values symbolic; "
                   "the device overwrites the data-in buffer during execute with a response whose payload is symbolic; "
                   "z3 decides that arguments (or defaults) sit at the standard's CDB positions and that cmd.result "
                   "equals, term by term, an independent decode of the device-written bytes. A device whose execute raises "
                   "(TypeError, ValueError, OSError, AttributeError, KeyError, RuntimeError, a foreign exception) still "
                   "receives exactly one command and the call fails. A command object executed and decoded a second time "
                   "reports the new answer only; a facade without a configured block size and a facade re-attached with "
                   "s(dev2) still send exactly one command, to the attached device. The same call over the library's "
                   "SCSIDevice and ISCSIDevice on the stub bindings: one binding call, carrying the very cdb/dataout/"
                   "datain objects of the returned command (allocation length symbolic), result decoded from what the "
                   "binding left in the buffer.",
    "functions": ["SCSI.<38 facade methods>", "SCSI.execute", "SCSIDevice.execute", "ISCSIDevice.execute", "converter.get_opcode", "SCSICommand.unmarshall", "every unmarshall_datain "
                  "reached through the facade"],
    "bounds": {"device data": "one small well-formed response per command, payload bytes symbolic (<= 64 bytes)",
               "kwargs": "documented optional arguments parsed from the docstrings of the current scsi.py"},
    "outside": ["parameter dictionaries of PERSISTENT RESERVE OUT / EXTENDED COPY / MODE SELECT (C05)",
                "responses with more than one descriptor (C04)"],
    "assumptions": ["recording device stands for any device object", "spec/cdb_layouts.py"],
}
