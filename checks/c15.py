"""C15 -- commands never go through a stale device handle; handles are released.

The real SCSIDevice runs over the open / os.stat / sgio stubs.  A history is a
sequence of steps; before each execute the environment nondeterministically keeps,
replaces (new inode = solver variable) or removes the device node, may make close()
of the current handle fail, and completes the command with GOOD or CHECK CONDITION.
The solver decides all equal/different relations between successive inodes."""
MOD = "checks.c15"

EVENTS = ["same/good", "same/check-condition", "replaced/close-ok", "replaced/close-fails", "absent",
          "replaced/reopen-refused", "replaced/node-flickers-after-reopen"]


class _Sc:
    def __init__(self, ctx):
        self.ctx = ctx
        self.fail_next = False

    def sgio(self, env, call):
        from stubs import env as E
        if self.fail_next:
            raise E.CheckConditionError(bytearray(b"\x70\x00\x05\x00\x00\x00\x00\x0a" + b"\x00" * 4 + b"\x24\x00" + b"\x00" * 4))
        return 0


def _setup(ctx, detect, readwrite):
    from stubs import env
    sd, idv = env.install()
    sc = _Sc(ctx)
    env.ENV.reset(sc)
    ino = ctx.int("ino0", 12)
    env.ENV.cur_inode = ino
    dev = sd.SCSIDevice("/dev/sg3", readwrite=readwrite, detect_replugged=detect)
    return env.ENV, sd, sc, dev, ino


def _cmd(dev):
    from pyscsi.pyscsi.scsi_cdb_testunitready import TestUnitReady
    return TestUnitReady(dev.opcodes.TEST_UNIT_READY)


def h_history(ctx, k, detect, readwrite, finish):
    E, sd, sc, dev, ino = _setup(ctx, detect, readwrite)
    ctx.check("opened exactly once, on exactly the requested path", [o[0] for o in E.opens] == ctx.oracle_struct(["/dev/sg3"]))
    ctx.check("open mode is rb / w+b", E.opens[0][1] == ctx.oracle("w+b" if readwrite else "rb"))
    first = E.handles[0]
    cur_ino = ino
    for t in range(1, k + 1):
        ev = ctx.choose("event%d" % t, EVENTS)
        live = E.handles[-1]
        sc.fail_next = (ev == 1)
        raw = bool(ctx.choose("raw_sense%d" % t, ["no", "yes"])) if k <= 2 else False
        replaced = ev in (2, 3, 5, 6)
        prev_ino = cur_ino
        if replaced:
            cur_ino = ctx.int("ino%d" % t, 12)
            E.cur_inode = cur_ino
            live.close_raises = (ev == 3)
            if ev == 5:
                # the node cannot be opened for as long as this execute lasts (however often it is tried)
                E.open_error = PermissionError(13, "Permission denied (stub: node not ready yet)")
                E.open_error_sticky = True
            if ev == 6:
                E.flicker_after_open = True
        elif ev == 4:
            E.cur_inode = None
        n_sent = len(E.sgio_calls)
        st, r = ctx.attempt(dev.execute, _cmd(dev), en_raw_sense=raw)
        sent = E.sgio_calls[n_sent:]
        if ev == 6:
            flickered = not E.flicker_after_open and not E.stat_fails_once   # the one-shot was consumed by a re-open
            E.flicker_after_open = E.stat_fails_once = False
            if detect and flickered:
                # the new node was opened, then it was gone for a moment: the error is reported, nothing is sent through
                # any handle -- and the handle opened in between is not lost (released with the device at the end)
                ctx.check("step %d: a node that flickers during the re-open is reported, nothing is sent" % t,
                          ctx.oracle(st == "exc" and not sent), repr(r))
                sc.fail_next = False
                n2 = len(E.sgio_calls)
                st2, r2 = ctx.attempt(dev.execute, _cmd(dev))
                for call in E.sgio_calls[n2:]:
                    ctx.check("step %d: after the flicker the next command uses a live handle on the current node" % t,
                              (call.file.inode == ctx.oracle(E.cur_inode)) & (call.file.close_calls == 0))
                live.close_raises = False
                prev_ino = cur_ino
                continue
        if ev == 5:
            E.open_error = None
            E.open_error_sticky = False
            really_replaced = detect and bool(cur_ino != prev_ino)
            if really_replaced:
                # the re-open was refused once: the failure is reported and nothing goes through the stale handle;
                # the next execute (node unchanged) must again use a handle on the node that exists now
                ctx.check("step %d: a refused re-open is reported, nothing is sent" % t, ctx.oracle(st == "exc" and not sent), repr(r))
                n2 = len(E.sgio_calls)
                sc.fail_next = False
                st2, r2 = ctx.attempt(dev.execute, _cmd(dev))
                for call in E.sgio_calls[n2:]:
                    ctx.check("step %d: after a refused re-open no command goes through the stale handle" % t,
                              (call.file.inode == ctx.oracle(E.cur_inode)) & (call.file.close_calls == 0))
                live.close_raises = False
                prev_ino = cur_ino
                continue
        ctx.check("step %d: at most one ioctl per execute" % t, len(sent) <= 1)
        if detect:
            if ev == 4:
                ctx.check("step %d: a vanished node is an error, nothing is sent" % t, ctx.oracle(st == "exc" and not sent), repr(r))
                E.cur_inode = cur_ino  # the node comes back for the next step
                continue
            for call in sent:
                ctx.check("step %d: the command goes through a handle opened on the node that exists now" % t,
                          call.file.inode == ctx.oracle(E.cur_inode))
                ctx.check("step %d: the handle used is not closed" % t, call.file.close_calls == 0)
            if st == "ok" or sent:
                # every handle except the live one has been closed
                for h in E.handles[:-1]:
                    ctx.check("step %d: superseded handles were closed" % t, h.close_calls >= ctx.oracle(1))
            if ev == 3 and st == "exc":
                # closing the stale handle failed: the error may surface, but a fresh handle must be in place
                ctx.check("step %d: after a failed close a fresh handle on the current node is held" % t,
                          dev._file is not live and dev._file.inode == ctx.oracle(E.cur_inode))
            if st == "ok":
                ctx.check("step %d: success means the command was sent" % t, len(sent) == ctx.oracle(1))
            if ev in (0, 2) and not (ev == 2 and live.close_raises):
                ctx.check("step %d: a GOOD command on a present node completes" % t, ctx.oracle(st == "ok"), repr(r))
            if ev == 1 and not raw:
                ctx.check("step %d: CHECK CONDITION is raised" % t, st == "exc" and isinstance(r, dev.CheckCondition), repr(r))
        else:
            if ev == 4:
                E.cur_inode = cur_ino
            for call in sent:
                ctx.check("step %d: detection off: the original handle is kept" % t, call.file is ctx.oracle(first))
            ctx.check("step %d: detection off: no re-open" % t, len(E.handles) == ctx.oracle(1))
            ctx.check("step %d: detection off: the command is sent" % t, len(sent) == ctx.oracle(1))
        live.close_raises = False
    # release
    live = dev._file
    if finish == "close":
        dev.close()
    elif finish == "with":
        with dev as d:
            ctx.check("__enter__ returns the device", d is dev)
    elif finish == "with-exception":
        try:
            with dev:
                raise KeyError("boom")
        except KeyError:
            pass
    elif finish == "with-vanished":
        # the block is left by the error the library itself raises for a vanished node
        E.cur_inode = None if detect else cur_ino
        sc.fail_next = False
        try:
            with dev:
                dev.execute(_cmd(dev))
                raise FileNotFoundError("left the block with the same error class")
        except FileNotFoundError:
            pass
        E.cur_inode = cur_ino
    elif finish == "facade-with":
        from pyscsi.pyscsi.scsi import SCSI
        E.cur_inode = cur_ino
        sc.fail_next = False
        with SCSI(dev) as s:
            live = dev._file
    ctx.check("the live OS handle is released exactly once", live.close_calls == ctx.oracle(1))
    for h in E.handles:
        if h is not live:
            # (closing a superseded, already closed handle object again releases nothing twice: >= 1)
            ctx.check("no superseded handle is leaked", h.close_calls >= 1 or not detect)


def h_iscsi_release(ctx, finish):
    from stubs import env
    sd, idv = env.install()
    env.ENV.reset()
    dev = idv.ISCSIDevice("iscsi://host/tgt/0", "iqn.x")
    c = env.ENV.iscsi_contexts[-1]
    if finish == "close":
        dev.close()
    elif finish == "with":
        with dev:
            pass
    else:
        try:
            with dev:
                raise KeyError("boom")
        except KeyError:
            pass
    ctx.check("iSCSI session disconnected exactly once", len([x for x in c.calls if x[0] == "disconnect"]) == ctx.oracle(1))


def h_two_objects(ctx, rw1, rw2):
    """two device objects on the same path (say a read-only and a read-write one), replugs in between: each object's
    commands go through a handle of its own on the node that exists when the command is sent"""
    from stubs import env
    sd, idv = env.install()
    sc = _Sc(ctx)
    env.ENV.reset(sc)
    E = env.ENV
    E.cur_inode = ctx.int("ino0", 12)
    a = sd.SCSIDevice("/dev/sg3", readwrite=rw1, detect_replugged=True)
    b = sd.SCSIDevice("/dev/sg3", readwrite=rw2, detect_replugged=True)
    for t in range(1, 4):
        if ctx.choose("replug%d" % t, ["no", "yes"]):
            E.cur_inode = ctx.int("ino%d" % t, 12)
        order = (a, b) if ctx.choose("first%d" % t, ["a", "b"]) == 0 else (b, a)
        for dev in order:
            n = len(E.sgio_calls)
            st, r = ctx.attempt(dev.execute, _cmd(dev))
            ctx.check("round %d: the command completes" % t, ctx.oracle(st == "ok"), repr(r))
            for call in E.sgio_calls[n:]:
                ctx.check("round %d: each object sends through a handle on the node that exists now" % t,
                          call.file.inode == ctx.oracle(E.cur_inode))
                ctx.check("round %d: the handle used is open" % t, call.file.close_calls == 0)
                ctx.check("round %d: the handle used is the object's own" % t, call.file is dev._file)
    a.close()
    b.close()
    for h in E.handles:
        ctx.check("every handle ever opened is released", h.close_calls >= ctx.oracle(1))
    ctx.check("the two live handles are released exactly once", a._file.close_calls == 1 and b._file.close_calls == 1)


def obligations(tier):
    from symx.harness import Ob
    obs = []
    for rw1, rw2 in ((False, False), (False, True), (True, True)):
        obs.append(Ob("two-objects/rw=%s,%s" % (rw1, rw2), MOD, "h_two_objects", {"rw1": rw1, "rw2": rw2}, split=True))
    ks = (1, 2, 3) if tier == "quick" else (1, 2, 3, 4, 5)
    for k in ks:
        for detect in (True, False):
            for rw in (False, True):
                fins = ("close", "with", "with-exception", "with-vanished", "facade-with") if k <= 2 else ("close",)
                for fin in fins:
                    if not detect and k > 2 and tier == "quick":
                        continue
                    obs.append(Ob("history/k=%d/detect=%s/rw=%s/%s" % (k, detect, rw, fin), MOD, "h_history",
                                  {"k": k, "detect": detect, "readwrite": rw, "finish": fin}, split=True))
    for fin in ("close", "with", "with-exception"):
        obs.append(Ob("iscsi-release/%s" % fin, MOD, "h_iscsi_release", {"finish": fin}))
    return obs


CANARIES = {"quick": 12, "thorough": 30}

INFO = {
    "explanation": "SCSIDevice.execute/open/close/__exit__ run over stubbed open/os.stat/sgio; per step the environment "
                   "chooses keep / replace (fresh symbolic inode) / remove the node, close() failure and the command's "
                   "outcome; the explorer enumerates the event sequences and z3 decides every inode comparison, so "
                   "'handle.inode == inode at send time', closing of superseded handles, and exactly-once release are "
                   "decided for all inode values. Further events: a re-open that is refused for as long as the execute lasts, a "
                   "node that vanishes between the re-open and the following stat; two device objects on one path with "
                   "replugs in between.",
    "functions": ["SCSIDevice.__init__/open/close/execute/_is_replugged/__enter__/__exit__", "get_inode",
                  "SCSI.__enter__/__exit__", "ISCSIDevice.close/__exit__"],
    "bounds": {"history length": "k <= 3 quick, <= 5 thorough", "inodes": "12-bit symbolic per step", "events": EVENTS},
    "outside": ["a replug between the inode check and the ioctl (inherent TOCTOU)", "iSCSI reconnects",
                "close() called explicitly and again by __exit__"],
    "assumptions": ["stub filesystem: open() remembers the inode current at open time; os.stat returns the current one"],
}
