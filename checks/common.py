"""helpers shared by the CDB-level checks (C01/C02/C03/C13/C17)"""
import importlib

from spec import cdb_layouts as L


def get_class(spec):
    return getattr(importlib.import_module(spec["module"]), spec["cls"])


def get_set(name):
    import pyscsi.pyscsi.scsi_enum_command as ec
    return getattr(ec, name)


def lookup_opcode(spec, set_name, facade_key=False):
    """the OpCode object a user gets from the library's table of that command set"""
    from pyscsi.utils.converter import get_opcode
    st = get_set(set_name)
    if spec["lookup"] in ("A3", "9E"):
        return next(get_opcode(st, spec["lookup"]))
    key = spec["sets"][set_name]
    if not facade_key:
        key = L.TABLE_KEY.get((spec["name"], set_name), key)
    return getattr(st, key)


def sym_args(ctx, spec, only=None, prefix=""):
    """one solver variable per CDB argument, at the width the standard gives the field"""
    a = {}
    for name, segs in spec["fields"].items():
        if only is not None and name not in only:
            continue
        a[name] = ctx.int(prefix + name, L.width(segs))
    return a


MODEPAGE = {"medium_type": 0, "device_specific_parameter": 0,
            "mode_pages": [{"ps": 0, "spf": 0, "page_code": 0x0A, "tst": 0, "swp": 1}]}


def extra_args(ctx, spec, args, bs_bits=32, data=None):
    """constructor arguments that are not CDB fields"""
    e = {}
    for k, kind in spec["extra"].items():
        if kind == "blocksize":
            e[k] = ctx.int("blocksize", bs_bits, lo=1)
        elif kind == "blocksize-kw":
            e[k] = ctx.int("blocksize", bs_bits)
        elif kind == "data":
            e[k] = data if data is not None else bytearray(b"\xa5" * 4)
        elif kind == "data-opt":
            pass
        elif kind == "extra_tl":
            e[k] = ctx.int("extra_tl", 16)
        elif kind == "modepage":
            e[k] = {"medium_type": 0, "device_specific_parameter": 0,
                    "mode_pages": [{"ps": 0, "spf": 0, "page_code": 0x0A, "tst": 0, "swp": 1}]}
    return e


def build(spec, opcode, args, extra):
    cls = get_class(spec)
    return cls(opcode, **dict(args, **extra))


def concrete_args(spec):
    """a simple valid concrete constructor call (used where only the class state matters)"""
    a = {}
    for name, segs in spec["fields"].items():
        a[name] = 96 if name in ("alloclen", "alloc_len") else 0
    if "t_length" in a:
        a.update(t_length=2, t_dir=1, count=1)
    e = {}
    for k, kind in spec["extra"].items():
        if kind in ("blocksize", "blocksize-kw"):
            e[k] = 512
        elif kind == "data":
            e[k] = bytearray(512)
        elif kind == "modepage":
            e[k] = {"medium_type": 0, "device_specific_parameter": 0,
                    "mode_pages": [{"ps": 0, "spf": 0, "page_code": 0x0A, "tst": 0, "swp": 1}]}
    return a, e


def lib_bits(mask, off):
    """set of (byte, bit) positions a library [mask, offset] entry occupies"""
    n = 1
    m = mask
    while m > 0xFF:
        m >>= 8
        n += 1
    out = set()
    for b in range(8 * n):
        if (mask >> b) & 1:
            out.add((off + n - 1 - b // 8, b % 8))
    return out


def spec_bits(segs):
    return {(byte, b) for byte, msb, lsb, _ in segs for b in range(lsb, msb + 1)}


def facade_concrete_call(s, spec, overrides=None):
    """call the facade method of `spec` with simple valid concrete arguments"""
    a, e = concrete_args(spec)
    fa = dict(a)
    for k, kind in spec["extra"].items():
        if kind in ("data", "modepage"):
            fa[k] = e[k]
    if spec["name"].startswith("PERSISTENT RESERVE IN/"):
        fa["service_action"] = spec["sa"][1]
    if spec["name"] == "READ CD":
        fa.update(lba=16, tl=1, est=1, mcsb=2)
    if overrides:
        fa.update(overrides)
    return getattr(s, spec["facade"])(**fa)


FACADE_SET = {}


def facade_set_for(spec):
    for st in ("sbc", "spc", "smc", "mmc", "ssc"):
        if st in spec["sets"]:
            return st
