"""C01 -- every CDB the library builds has the standard's wire format.

Per (command, command set that defines it): the library's own OpCode object for
that set, every constructor argument a solver variable of the field width the
standard gives it; the emitted CDB is compared byte for byte with the layout of
spec/cdb_layouts.py, through the constructor and through the facade."""
from spec import cdb_layouts as L
from symx.ctx import Skip

from . import common as K

MOD = "checks.c01"


def _compare(ctx, spec, cdb, args, plist_len=None, tag=""):
    ctx.check(tag + "cdb length is the SAM length for the opcode group", len(cdb) == ctx.oracle(spec["length"]))
    exp = L.expected_cdb(spec, args)
    if plist_len is not None:
        L._place(exp, spec["data"][2], plist_len)
    for i in range(min(len(cdb), spec["length"])):
        ctx.check(tag + "byte %d" % i, cdb[i] == ctx.oracle(exp[i]))
    if len(cdb) == spec["length"]:
        dec = L.decode_cdb(spec, cdb)
        for name in args:
            ctx.check(tag + "conformant target recovers '%s'" % name, dec[name] == ctx.oracle(args[name]))


def h_ctor(ctx, cmd, set_name):
    spec = L.CDB[cmd]
    if ctx.known("C01-mmc-modesense10-opcode") and cmd == "MODE SENSE(10)" and set_name == "mmc":
        spec = dict(spec, opcode=0xA5, length=12)
    opcode = K.lookup_opcode(spec, set_name)
    args = K.sym_args(ctx, spec)
    extra = K.extra_args(ctx, spec, args)
    if cmd.startswith("ATA"):
        # the ATA size rules refuse byte_block & t_type & t_length without a blocksize (C17); here: valid requests
        ctx.assume(extra["blocksize"] >= 1)
    c = K.build(spec, opcode, args, extra)
    pl = len(c.dataout) if spec["data"][:2] == ("out", "plist") else None
    _compare(ctx, spec, c.cdb, args, pl)
    ctx.check("opcode attribute is the table entry", c.opcode is opcode)


def h_facade(ctx, cmd, set_name, variant=0):
    from pyscsi.pyscsi.scsi import SCSI
    from stubs.recdev import RecDevice
    spec = L.CDB[cmd]
    if not spec["facade"]:
        raise Skip("no facade method")
    if ctx.known("C01-mmc-modesense10-opcode") and cmd == "MODE SENSE(10)" and set_name == "mmc":
        spec = dict(spec, opcode=0xA5, length=12)
    dev = RecDevice()
    args = K.sym_args(ctx, spec)
    extra = K.extra_args(ctx, spec, args)
    bs = extra.pop("blocksize", 0) if "blocksize" in spec["extra"] and spec["extra"]["blocksize"] == "blocksize" else 0
    s = SCSI(dev, bs)
    dev.opcodes = K.get_set(set_name)
    n0 = len(dev.executed)
    if cmd.startswith("ATA"):
        ctx.assume(extra["blocksize"] >= 1)
    fa = dict(args, **extra)
    if cmd == "READ CD":
        # the facade decodes per sector after sending: keep the sector count concrete here (tl is fully
        # symbolic on the constructor path); variant 0: tl = 0, variant 1: one sector, sector layout concrete
        if variant == 0:
            fa["tl"] = args["tl"] = 0
        else:
            fa.update(tl=1, est=1, mcsb=2, c2ei=0, scsb=0)
            args.update(tl=1, est=1, mcsb=2, c2ei=0, scsb=0)
            fa["lba"] = args["lba"] = 0xFFFFFFFE
    if spec["sa"] is not None and cmd.startswith("PERSISTENT RESERVE IN/"):
        fa["service_action"] = spec["sa"][1]
    kw = {}
    if cmd == "READ CD":
        pass
    st, c = ctx.attempt(getattr(s, spec["facade"]), **fa)
    if st == "exc" and len(dev.executed) == n0:
        raise c  # refused / crashed before anything reached the device
    # an exception raised *after* the command was sent comes from decoding the untouched (all-zero,
    # possibly too short) buffer of this recording device; that is C04/C13's subject, not the CDB's
    ctx.check("facade: exactly one command handed to the device", len(dev.executed) - n0 == 1)
    sent = dev.executed[-1]
    if st == "ok":
        ctx.check("facade: returned object is the executed one", sent is c)
    pl = len(sent.dataout) if spec["data"][:2] == ("out", "plist") else None
    _compare(ctx, spec, sent.cdb, args, pl, tag="facade: ")


def obligations(tier):
    from symx.harness import Ob
    obs = []
    for cmd, spec in L.CDB.items():
        for st in spec["sets"]:
            obs.append(Ob("ctor/%s/%s" % (cmd, st), MOD, "h_ctor", {"cmd": cmd, "set_name": st}))
            if spec["facade"] and (cmd, st) not in L.TABLE_KEY:  # key-spelling mismatches are C13's subject
                obs.append(Ob("facade/%s/%s" % (cmd, st), MOD, "h_facade", {"cmd": cmd, "set_name": st}))
            if cmd == "READ CD":
                obs.append(Ob("facade/%s/%s/one-sector" % (cmd, st), MOD, "h_facade",
                              {"cmd": cmd, "set_name": st, "variant": 1}))
    return obs


CANARIES = {"quick": 30, "thorough": None}

INFO = {
    "explanation": "Every constructor (and facade method) of the 43 command classes runs once per defining command "
                   "set with all CDB arguments as solver variables of the standard's field width (64-bit LBAs "
                   "included, all flags jointly); each emitted CDB byte is compared with the independently written "
                   "layout; one z3 query per byte ('exists arguments with cdb[i] != spec[i]') must be unsat.",
    "functions": ["SCSICommand.__init__/init_cdb/build_cdb/marshall_cdb", "converter.encode_dict/scsi_int_to_ba",
                  "__init__ of every scsi_cdb_*.py class", "ATAPassThrough12/16.scsi_to_ata_lba_convert",
                  "SCSI.<facade methods>", "converter.get_opcode", "opcode tables of scsi_enum_command"],
    "bounds": {"values": "none: every argument ranges over its full field width", "block size": "1..2^32-1",
               "parameter lists": "one fixed mode page / empty PR OUT list / empty EXTENDED COPY list (contents are C05)"},
    "outside": ["out-of-range or negative arguments", "variable-length and 32-byte CDBs (the library builds none)",
                "SSC's READ(16)/WRITE(16), which are different commands from the SBC ones the classes implement"],
    "assumptions": ["spec/cdb_layouts.py transcribes SPC-4/SBC-3/SMC-3/MMC-6/SAT-3 correctly (trusted base)"],
    "oracle_gaps": ["CONTROL byte: the library never sets it (always 0) except for ATA PASS-THROUGH; not an argument"],
}
